//! Harness attribute kinds (user-supplied `AttributeUpdate` laws with cooperative fault points)
//! and pure, fault-free copies of every law for the reference model.
//!
//! Kinds are identified by a small index so that scenarios and replay files can name them:
//!   0 Wv  vertex, additive weight          4 Wf  face, additive weight      8 FA  FaceAnchor (real)
//!   1 Tv  vertex, tag (fails on conflict)  5 Tf  face, tag
//!   2 We  edge, additive weight            6 VA  VertexAnchor (real, honeycomb-kernels)
//!   3 Te  edge, tag                        7 EA  EdgeAnchor (real)
//!
//! Laws. Weight: merge(a,b)=a+b, merge_incomplete(a)=a+2^40, no merge_from_none,
//! split(a)=(a-a/2, a/2), no split_from_none  (additive, non-idempotent, conserves the total).
//! Tag: merge(a,b)=a if a==b else FailedMerge, merge_incomplete(a)=a, merge_from_none=0,
//! split(a)=(a,a), split_from_none=(0,0)  (idempotent, fails naturally on conflicts).

use honeycomb_core::attributes::{AttrSparseVec, AttributeBind, AttributeError, AttributeUpdate};
use honeycomb_core::cmap::{EdgeIdType, FaceIdType, OrbitPolicy, VertexIdType};
use honeycomb_kernels::utils::{EdgeAnchor, FaceAnchor, VertexAnchor};

use crate::faults::{self, *};

pub const N_KINDS: usize = 9;
pub const K_WV: usize = 0;
pub const K_TV: usize = 1;
pub const K_WE: usize = 2;
pub const K_TE: usize = 3;
pub const K_WF: usize = 4;
pub const K_TF: usize = 5;
pub const K_VA: usize = 6;
pub const K_EA: usize = 7;
pub const K_FA: usize = 8;

pub const KIND_NAMES: [&str; N_KINDS] = ["Wv", "Tv", "We", "Te", "Wf", "Tf", "VertexAnchor", "EdgeAnchor", "FaceAnchor"];

/// 0 vertex, 1 edge, 2 face
pub const fn kind_orbit(k: usize) -> u8 {
    match k {
        0 | 1 | 6 => 0,
        2 | 3 | 7 => 1,
        _ => 2,
    }
}

pub const fn kind_is_weight(k: usize) -> bool {
    matches!(k, 0 | 2 | 4)
}
pub const fn kind_is_tag(k: usize) -> bool {
    matches!(k, 1 | 3 | 5)
}
pub const fn kind_is_anchor(k: usize) -> bool {
    k >= 6
}

pub const INC: u64 = 1 << 40;

macro_rules! weight_kind {
    ($name:ident, $policy:expr, $idty:ty, $kid:expr) => {
        #[derive(Debug, Clone, Copy, PartialEq, Eq, Default)]
        pub struct $name(pub u64);
        impl AttributeUpdate for $name {
            fn merge(a: Self, b: Self) -> Result<Self, AttributeError> {
                faults::callback($kid, CB_MERGE)?;
                Ok(Self(a.0.wrapping_add(b.0)))
            }
            fn split(a: Self) -> Result<(Self, Self), AttributeError> {
                faults::callback($kid, CB_SPLIT)?;
                Ok((Self(a.0 - a.0 / 2), Self(a.0 / 2)))
            }
            fn merge_incomplete(a: Self) -> Result<Self, AttributeError> {
                faults::callback($kid, CB_MERGE_INCOMPLETE)?;
                Ok(Self(a.0.wrapping_add(INC)))
            }
            fn merge_from_none() -> Result<Self, AttributeError> {
                faults::callback($kid, CB_MERGE_FROM_NONE)?;
                faults::natural(Err(AttributeError::InsufficientData("merge", stringify!($name))))
            }
            fn split_from_none() -> Result<(Self, Self), AttributeError> {
                faults::callback($kid, CB_SPLIT_FROM_NONE)?;
                faults::natural(Err(AttributeError::InsufficientData("split", stringify!($name))))
            }
        }
        impl AttributeBind for $name {
            type StorageType = AttrSparseVec<Self>;
            type IdentifierType = $idty;
            const BIND_POLICY: OrbitPolicy = $policy;
        }
    };
}

macro_rules! tag_kind {
    ($name:ident, $policy:expr, $idty:ty, $kid:expr) => {
        #[derive(Debug, Clone, Copy, PartialEq, Eq, Default)]
        pub struct $name(pub u64);
        impl AttributeUpdate for $name {
            fn merge(a: Self, b: Self) -> Result<Self, AttributeError> {
                faults::callback($kid, CB_MERGE)?;
                if a.0 == b.0 {
                    Ok(a)
                } else {
                    faults::natural(Err(AttributeError::FailedMerge(stringify!($name), "conflicting tags")))
                }
            }
            fn split(a: Self) -> Result<(Self, Self), AttributeError> {
                faults::callback($kid, CB_SPLIT)?;
                Ok((a, a))
            }
            fn merge_incomplete(a: Self) -> Result<Self, AttributeError> {
                faults::callback($kid, CB_MERGE_INCOMPLETE)?;
                Ok(a)
            }
            fn merge_from_none() -> Result<Self, AttributeError> {
                faults::callback($kid, CB_MERGE_FROM_NONE)?;
                Ok(Self(0))
            }
            fn split_from_none() -> Result<(Self, Self), AttributeError> {
                faults::callback($kid, CB_SPLIT_FROM_NONE)?;
                Ok((Self(0), Self(0)))
            }
        }
        impl AttributeBind for $name {
            type StorageType = AttrSparseVec<Self>;
            type IdentifierType = $idty;
            const BIND_POLICY: OrbitPolicy = $policy;
        }
    };
}

weight_kind!(Wv, OrbitPolicy::Vertex, VertexIdType, 0);
tag_kind!(Tv, OrbitPolicy::Vertex, VertexIdType, 1);
weight_kind!(We, OrbitPolicy::Edge, EdgeIdType, 2);
tag_kind!(Te, OrbitPolicy::Edge, EdgeIdType, 3);
weight_kind!(Wf, OrbitPolicy::Face, FaceIdType, 4);
tag_kind!(Tf, OrbitPolicy::Face, FaceIdType, 5);

// ---- u64 encodings of the real anchors

pub fn enc_va(a: VertexAnchor) -> u64 {
    match a {
        VertexAnchor::Node(i) => u64::from(i),
        VertexAnchor::Curve(i) => (1 << 32) | u64::from(i),
        VertexAnchor::Surface(i) => (2 << 32) | u64::from(i),
        VertexAnchor::Body(i) => (3 << 32) | u64::from(i),
    }
}
pub fn dec_va(v: u64) -> VertexAnchor {
    let i = v as u32;
    match v >> 32 {
        0 => VertexAnchor::Node(i),
        1 => VertexAnchor::Curve(i),
        2 => VertexAnchor::Surface(i),
        _ => VertexAnchor::Body(i),
    }
}
pub fn enc_ea(a: EdgeAnchor) -> u64 {
    match a {
        EdgeAnchor::Curve(i) => (1 << 32) | u64::from(i),
        EdgeAnchor::Surface(i) => (2 << 32) | u64::from(i),
        EdgeAnchor::Body(i) => (3 << 32) | u64::from(i),
    }
}
pub fn dec_ea(v: u64) -> EdgeAnchor {
    let i = v as u32;
    match v >> 32 {
        0 | 1 => EdgeAnchor::Curve(i),
        2 => EdgeAnchor::Surface(i),
        _ => EdgeAnchor::Body(i),
    }
}
pub fn enc_fa(a: FaceAnchor) -> u64 {
    match a {
        FaceAnchor::Surface(i) => (2 << 32) | u64::from(i),
        FaceAnchor::Body(i) => (3 << 32) | u64::from(i),
    }
}
pub fn dec_fa(v: u64) -> FaceAnchor {
    let i = v as u32;
    match v >> 32 {
        0..=2 => FaceAnchor::Surface(i),
        _ => FaceAnchor::Body(i),
    }
}

// ---- pure copies of the laws, for the reference model (never consult the fault plan)

pub fn law_merge(k: usize, a: u64, b: u64) -> Result<u64, ()> {
    if kind_is_weight(k) {
        Ok(a.wrapping_add(b))
    } else if kind_is_tag(k) {
        if a == b { Ok(a) } else { Err(()) }
    } else {
        match k {
            K_VA => VertexAnchor::merge(dec_va(a), dec_va(b)).map(enc_va).map_err(|_| ()),
            K_EA => EdgeAnchor::merge(dec_ea(a), dec_ea(b)).map(enc_ea).map_err(|_| ()),
            _ => FaceAnchor::merge(dec_fa(a), dec_fa(b)).map(enc_fa).map_err(|_| ()),
        }
    }
}
pub fn law_merge_incomplete(k: usize, a: u64) -> Result<u64, ()> {
    if kind_is_weight(k) { Ok(a.wrapping_add(INC)) } else { Ok(a) }
}
pub fn law_merge_from_none(k: usize) -> Result<u64, ()> {
    if kind_is_tag(k) { Ok(0) } else { Err(()) }
}
pub fn law_split(k: usize, a: u64) -> Result<(u64, u64), ()> {
    if kind_is_weight(k) { Ok((a - a / 2, a / 2)) } else { Ok((a, a)) }
}
pub fn law_split_from_none(k: usize) -> Result<(u64, u64), ()> {
    if kind_is_tag(k) { Ok((0, 0)) } else { Err(()) }
}

/// Bit set of registered kinds.
pub type KindMask = u16;
pub fn mask_has(m: KindMask, k: usize) -> bool {
    m & (1 << k) != 0
}
pub fn mask_kinds(m: KindMask) -> Vec<usize> {
    (0..N_KINDS).filter(|&k| mask_has(m, k)).collect()
}
