//! `State`: one plain-data description of a map, used three ways: as the *recipe* a real map is
//! built from, as the *snapshot* of every observable part of a real map, and as the executable
//! *reference model* (orbits by definition, well-formedness predicates, link semantics).

use serde::{Deserialize, Serialize};

use crate::attrs::*;

pub type Bits3 = [u64; 3];

#[derive(Clone, PartialEq, Eq, Hash, Debug, Serialize, Deserialize)]
pub struct State {
    pub dim: u8,
    pub kinds: KindMask,
    /// images of every dart, index 0 is the null dart; `beta[d][i]`, i in 0..=dim
    pub beta: Vec<[u32; 4]>,
    pub unused: Vec<bool>,
    /// coordinates as bit patterns (z = 0 in 2D)
    pub vtx: Vec<Option<Bits3>>,
    /// `attrs[kind][id]`; empty vector for kinds that are not registered
    pub attrs: Vec<Vec<Option<u64>>>,
}

#[derive(Clone, Copy, PartialEq, Eq, Debug, Serialize, Deserialize, Hash)]
pub enum Policy {
    Vertex,
    VertexLinear,
    Edge,
    Face,
    FaceLinear,
    Volume,
    VolumeLinear,
}

pub fn f3(b: Bits3) -> [f64; 3] {
    [f64::from_bits(b[0]), f64::from_bits(b[1]), f64::from_bits(b[2])]
}
pub fn b3(f: [f64; 3]) -> Bits3 {
    [f[0].to_bits(), f[1].to_bits(), f[2].to_bits()]
}

impl State {
    pub fn new(dim: u8, n_darts_with_null: usize, kinds: KindMask) -> State {
        let n = n_darts_with_null;
        State {
            dim,
            kinds,
            beta: vec![[0; 4]; n],
            unused: vec![false; n],
            vtx: vec![None; n],
            attrs: (0..N_KINDS).map(|k| if mask_has(kinds, k) { vec![None; n] } else { vec![] }).collect(),
        }
    }
    /// number of darts including the null dart (what `n_darts()` returns)
    pub fn n(&self) -> usize {
        self.beta.len()
    }
    pub fn grow(&mut self, by: usize) {
        let n = self.n() + by;
        self.beta.resize(n, [0; 4]);
        self.unused.resize(n, false);
        self.vtx.resize(n, None);
        for k in 0..N_KINDS {
            if mask_has(self.kinds, k) {
                self.attrs[k].resize(n, None);
            }
        }
    }
    #[inline]
    pub fn b(&self, i: u8, d: u32) -> u32 {
        self.beta[d as usize][i as usize]
    }
    pub fn in_use(&self, d: u32) -> bool {
        d != 0 && (d as usize) < self.n() && !self.unused[d as usize]
    }
    pub fn is_free(&self, d: u32) -> bool {
        self.beta[d as usize].iter().all(|&x| x == 0)
    }

    // ---------------------------------------------------------------- well-formedness

    /// The structural invariant of C01 (dim 2) / C02 (dim 3), exactly as stated. Returns a
    /// description of the first violation.
    pub fn wf(&self) -> Result<(), String> {
        let n = self.n() as u32;
        let dim = self.dim;
        for i in 0..=dim {
            if self.b(i, 0) != 0 {
                return Err(format!("null dart not inert: beta{}(0) = {}", i, self.b(i, 0)));
            }
        }
        for d in 1..n {
            for i in 0..=dim {
                let e = self.b(i, d);
                if e >= n {
                    return Err(format!("image out of range: beta{i}({d}) = {e} >= n_darts {n}"));
                }
            }
            let e = self.b(1, d);
            if e != 0 && self.b(0, e) != d {
                return Err(format!("beta0 does not invert beta1: beta1({d}) = {e} but beta0({e}) = {}", self.b(0, e)));
            }
            let e = self.b(0, d);
            if e != 0 && self.b(1, e) != d {
                return Err(format!("beta1 does not invert beta0: beta0({d}) = {e} but beta1({e}) = {}", self.b(1, e)));
            }
            for i in 2..=dim {
                let e = self.b(i, d);
                if e != 0 {
                    if e == d {
                        return Err(format!("beta{i} has a fixed point: at {d}"));
                    }
                    if self.b(i, e) != d {
                        return Err(format!("beta{i} not an involution: beta{i}({d}) = {e} but beta{i}({e}) = {}", self.b(i, e)));
                    }
                }
            }
            if self.unused[d as usize] && !self.is_free(d) {
                return Err(format!("removed dart not free: dart {d} has images {:?}", self.beta[d as usize]));
            }
            for i in 0..=dim {
                let e = self.b(i, d);
                if e != 0 && e < n && self.unused[e as usize] {
                    return Err(format!("removed dart referenced: {e} is the beta{i} image of {d}"));
                }
            }
        }
        if dim == 3 {
            for d in 1..n {
                let s = self.b(1, d);
                let m = self.b(3, d);
                if s != 0 && m != 0 {
                    let ms = self.b(3, s);
                    if ms != 0 && self.b(1, ms) != m {
                        return Err(format!(
                            "glued faces not mirrored: d={d} beta1(d)={s} beta3(d)={m} beta3(beta1(d))={ms} but beta1({ms})={}",
                            self.b(1, ms)
                        ));
                    }
                }
            }
        }
        Ok(())
    }

    // ---------------------------------------------------------------- orbits by definition

    /// One application of each generator of the policy *and of its inverse*.
    fn neighbours(&self, p: Policy, d: u32, out: &mut Vec<u32>) {
        let b = |i: u8, x: u32| if x == 0 { 0 } else { self.b(i, x) };
        match (self.dim, p) {
            (2, Policy::Vertex) => {
                out.push(b(1, b(2, d)));
                out.push(b(2, b(0, d)));
            }
            (2, Policy::VertexLinear) => out.push(b(1, b(2, d))),
            (2, Policy::Edge) => out.push(b(2, d)),
            (_, Policy::Face) => {
                out.push(b(1, d));
                out.push(b(0, d));
                if self.dim == 3 {
                    out.push(b(3, d));
                }
            }
            (2, Policy::FaceLinear) => out.push(b(1, d)),
            (3, Policy::FaceLinear) => {
                out.push(b(1, d));
                out.push(b(3, d));
            }
            (3, Policy::Vertex) => {
                out.push(b(3, b(2, d)));
                out.push(b(2, b(3, d)));
                out.push(b(1, b(3, d)));
                out.push(b(3, b(0, d)));
                out.push(b(1, b(2, d)));
                out.push(b(2, b(0, d)));
            }
            (3, Policy::VertexLinear) => {
                out.push(b(3, b(2, d)));
                out.push(b(1, b(3, d)));
                out.push(b(1, b(2, d)));
            }
            (3, Policy::Edge) => {
                out.push(b(2, d));
                out.push(b(3, d));
            }
            (3, Policy::Volume) => {
                out.push(b(1, d));
                out.push(b(0, d));
                out.push(b(2, d));
            }
            (3, Policy::VolumeLinear) => {
                out.push(b(1, d));
                out.push(b(2, d));
            }
            _ => panic!("policy {p:?} undefined in dimension {}", self.dim),
        }
    }

    /// Orbit of `d` (sorted), by fixpoint over generators and inverses.
    pub fn orbit(&self, p: Policy, d: u32) -> Vec<u32> {
        let mut seen = vec![d];
        let mut stack = vec![d];
        let mut tmp = Vec::with_capacity(6);
        while let Some(x) = stack.pop() {
            tmp.clear();
            self.neighbours(p, x, &mut tmp);
            for &y in &tmp {
                if y != 0 && !seen.contains(&y) {
                    seen.push(y);
                    stack.push(y);
                }
            }
        }
        seen.sort_unstable();
        seen
    }

    pub fn cell_id(&self, p: Policy, d: u32) -> u32 {
        self.orbit(p, d)[0]
    }

    /// Cell id of every dart (index = dart; 0 for the null dart) for orbit kind 0/1/2/3.
    pub fn partition(&self, okind: u8) -> Vec<u32> {
        let p = match okind {
            0 => Policy::Vertex,
            1 => Policy::Edge,
            2 => Policy::Face,
            _ => Policy::Volume,
        };
        let n = self.n();
        let mut id = vec![0u32; n];
        let mut done = vec![false; n];
        for d in 1..n as u32 {
            if done[d as usize] {
                continue;
            }
            let o = self.orbit(p, d);
            for &x in &o {
                id[x as usize] = o[0];
                done[x as usize] = true;
            }
        }
        id
    }

    // ---------------------------------------------------------------- link semantics (model)

    pub fn link1_core(&mut self, l: u32, r: u32) -> Result<(), String> {
        if self.b(1, l) != 0 {
            return Err("NonFreeBase".into());
        }
        if self.b(0, r) != 0 {
            return Err("NonFreeImage".into());
        }
        self.beta[l as usize][1] = r;
        self.beta[r as usize][0] = l;
        Ok(())
    }
    pub fn unlink1_core(&mut self, l: u32) -> Result<u32, String> {
        let r = self.b(1, l);
        if r == 0 {
            return Err("AlreadyFree".into());
        }
        self.beta[l as usize][1] = 0;
        self.beta[r as usize][0] = 0;
        Ok(r)
    }
    pub fn linki_core(&mut self, i: u8, l: u32, r: u32) -> Result<(), String> {
        if self.b(i, l) != 0 {
            return Err("NonFreeBase".into());
        }
        if self.b(i, r) != 0 {
            return Err("NonFreeImage".into());
        }
        self.beta[l as usize][i as usize] = r;
        self.beta[r as usize][i as usize] = l;
        Ok(())
    }
    pub fn unlinki_core(&mut self, i: u8, l: u32) -> Result<u32, String> {
        let r = self.b(i, l);
        if r == 0 {
            return Err("AlreadyFree".into());
        }
        self.beta[l as usize][i as usize] = 0;
        self.beta[r as usize][i as usize] = 0;
        Ok(r)
    }

    /// The topological effect of `link::<i>(l, r)`; on error the state is unchanged.
    pub fn link(&mut self, i: u8, l: u32, r: u32) -> Result<(), String> {
        let backup = self.beta.clone();
        let res = self.link_inner(i, l, r);
        if res.is_err() {
            self.beta = backup;
        }
        res
    }
    fn link_inner(&mut self, i: u8, l: u32, r: u32) -> Result<(), String> {
        match (self.dim, i) {
            (2, 1) => self.link1_core(l, r),
            (_, 2) => self.linki_core(2, l, r),
            (3, 1) => {
                self.link1_core(l, r)?;
                let (ml, mr) = (self.b(3, l), self.b(3, r));
                if ml != 0 && mr != 0 {
                    self.link1_core(mr, ml)?;
                }
                Ok(())
            }
            (3, 3) => {
                // glue the face of l onto the face of r, mirrored: l<->r, b1(l)<->b0(r), ...
                // refused when the two faces cannot be mirrored onto each other
                let lf = self.face_walk(l, true);
                let rf = self.face_walk(r, false);
                if lf.closed != rf.closed || lf.fwd.len() != rf.fwd.len() || lf.bwd.len() != rf.bwd.len() {
                    return Err("AsymmetricalFaces".into());
                }
                for (a, b) in lf.fwd.iter().zip(rf.fwd.iter()).chain(lf.bwd.iter().zip(rf.bwd.iter())) {
                    self.linki_core(3, *a, *b)?;
                }
                Ok(())
            }
            _ => panic!("link {i} in dim {}", self.dim),
        }
    }

    pub fn unlink(&mut self, i: u8, l: u32) -> Result<(), String> {
        let backup = self.beta.clone();
        let res = self.unlink_inner(i, l);
        if res.is_err() {
            self.beta = backup;
        }
        res
    }
    fn unlink_inner(&mut self, i: u8, l: u32) -> Result<(), String> {
        match (self.dim, i) {
            (2, 1) => self.unlink1_core(l).map(|_| ()),
            (_, 2) => self.unlinki_core(2, l).map(|_| ()),
            (3, 1) => {
                let r = self.unlink1_core(l)?;
                let (ml, mr) = (self.b(3, l), self.b(3, r));
                if ml != 0 && mr != 0 {
                    if self.b(1, mr) != ml {
                        return Err("AsymmetricalFaces".into());
                    }
                    self.unlink1_core(mr)?;
                }
                Ok(())
            }
            (3, 3) => {
                if self.b(3, l) == 0 {
                    return Err("AlreadyFree".into());
                }
                let lf = self.face_walk(l, true);
                for a in lf.fwd.iter().chain(lf.bwd.iter()) {
                    self.unlinki_core(3, *a)?;
                }
                Ok(())
            }
            _ => panic!("unlink {i} in dim {}", self.dim),
        }
    }

    /// Walk the beta1/beta0 path of `d`. `fwd` = d, b1(d), b1(b1(d)).. (or with b0 when
    /// `forward_is_b1` is false) until back to d or a free end; `bwd` = the other direction from
    /// d (excluded), only for open paths.
    pub fn face_walk(&self, d: u32, forward_is_b1: bool) -> FaceWalk {
        let (f, g) = if forward_is_b1 { (1u8, 0u8) } else { (0u8, 1u8) };
        let mut fwd = vec![d];
        let mut x = self.b(f, d);
        let mut closed = false;
        while x != 0 {
            if x == d {
                closed = true;
                break;
            }
            if fwd.len() > self.n() {
                break;
            }
            fwd.push(x);
            x = self.b(f, x);
        }
        let mut bwd = vec![];
        if !closed {
            let mut y = self.b(g, d);
            while y != 0 && bwd.len() <= self.n() {
                bwd.push(y);
                y = self.b(g, y);
            }
        }
        FaceWalk { fwd, bwd, closed }
    }

    /// Human-readable difference between two states (first few differing slots).
    pub fn diff(&self, other: &State) -> String {
        let mut out = vec![];
        if self.n() != other.n() {
            out.push(format!("n_darts {} vs {}", self.n(), other.n()));
        }
        let n = self.n().min(other.n());
        for d in 0..n {
            if self.beta[d] != other.beta[d] {
                out.push(format!("beta[{d}] {:?} vs {:?}", self.beta[d], other.beta[d]));
            }
            if self.unused[d] != other.unused[d] {
                out.push(format!("unused[{d}] {} vs {}", self.unused[d], other.unused[d]));
            }
            if self.vtx[d] != other.vtx[d] {
                out.push(format!("vertex[{d}] {:?} vs {:?}", self.vtx[d].map(f3), other.vtx[d].map(f3)));
            }
            for k in 0..N_KINDS {
                if mask_has(self.kinds, k) && mask_has(other.kinds, k) && self.attrs[k][d] != other.attrs[k][d] {
                    out.push(format!("{}[{d}] {:?} vs {:?}", KIND_NAMES[k], self.attrs[k][d], other.attrs[k][d]));
                }
            }
            if out.len() > 8 {
                out.push("...".into());
                break;
            }
        }
        out.join("; ")
    }

    pub fn hash64(&self) -> u64 {
        use std::hash::{Hash, Hasher};
        let mut h = std::collections::hash_map::DefaultHasher::new();
        self.hash(&mut h);
        h.finish()
    }
}

pub struct FaceWalk {
    pub fwd: Vec<u32>,
    pub bwd: Vec<u32>,
    pub closed: bool,
}
