#![allow(dead_code)]
#![allow(clippy::too_many_arguments)]

mod anymap;
mod attrs;
mod conc;
mod exec;
mod faults;
mod gen2;
mod gen3;
mod hist;
mod koracle;
mod mesh;
mod oracle;
mod harness;
mod ops;
mod prng;
mod props;
mod sched;
mod state;

use harness::{Tier, Violation};

fn usage() -> ! {
    eprintln!("usage: hcsim check <Cxx> <quick|thorough> | hcsim replay <file>");
    std::process::exit(2)
}

fn main() {
    let args: Vec<String> = std::env::args().collect();
    if args.len() < 2 {
        usage();
    }
    exec::init();
    let code = match args[1].as_str() {
        "check" => {
            if args.len() < 4 {
                usage();
            }
            let tier = match args[3].as_str() {
                "quick" => Tier::Quick,
                "thorough" => Tier::Thorough,
                _ => usage(),
            };
            let budget = std::env::var("VERIF_BUDGET_S").ok().and_then(|v| v.parse::<u64>().ok()).unwrap_or(if tier == Tier::Thorough { 1800 } else { 0 });
            harness::BUDGET_S.store(budget, std::sync::atomic::Ordering::Relaxed);
            println!("property={} tier={} VERIF_SEED={} workers={}", args[2], tier.name(), harness::base_seed(), harness::n_workers());
            match args[2].as_str() {
                "C07" => props::c07::check(tier),
                "C06" => props::c06::check(tier),
                "C08" => props::c08::check(tier),
                "C01" | "C02" | "C03" | "C04" | "C05" | "C18" | "C13" | "C14" | "C15" => props::hprops::check(&args[2], tier),
                _ => {
                    eprintln!("HARNESS-ERROR unknown property {}", args[2]);
                    2
                }
            }
        }
        "digest" => {
            // hcsim digest <Cxx> <n>: per-run digests for the determinism self-test
            if args.len() < 4 {
                usage();
            }
            let n: u64 = args[3].parse().unwrap_or(100);
            match args[2].as_str() {
                "C07" => props::c07::digest(n),
                "C06" => props::c06::digest(n),
                "C08" => props::c08::digest(n),
                "C01" | "C02" | "C03" | "C04" | "C05" | "C18" | "C13" | "C14" | "C15" => props::hprops::digest(&args[2], n),
                _ => usage(),
            }
            0
        }
        "replay" => {
            if args.len() < 3 {
                usage();
            }
            let text = std::fs::read_to_string(&args[2]).unwrap_or_else(|e| {
                eprintln!("HARNESS-ERROR cannot read {}: {e}", args[2]);
                std::process::exit(2)
            });
            let v: Violation = serde_json::from_str(&text).unwrap_or_else(|e| {
                eprintln!("HARNESS-ERROR cannot parse {}: {e}", args[2]);
                std::process::exit(2)
            });
            match v.property.as_str() {
                "C07" => props::c07::replay(&v),
                "C06" => props::c06::replay(&v),
                "C08" => props::c08::replay(&v),
                "C01" | "C02" | "C03" | "C04" | "C05" | "C18" | "C13" | "C14" | "C15" => props::hprops::replay(&v),
                _ => {
                    eprintln!("HARNESS-ERROR unknown property {}", v.property);
                    2
                }
            }
        }
        _ => usage(),
    };
    std::process::exit(code);
}
