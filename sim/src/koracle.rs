//! Statement-level oracles for the 2D kernels: C13 (triangulation), C14 (vertex insertion on an
//! edge), C15 (remeshing primitives), evaluated on (pre-state, call, result, post-state).
//! Expected meshes are computed geometrically (sets of oriented coordinate triples), so the
//! oracles survive refactors that reorder sews or pick other spare darts.

use std::collections::BTreeSet;

use crate::attrs::*;
use crate::mesh::*;
use crate::ops::{Op, Res};
use crate::oracle::Finding;
use crate::state::*;

fn fnd(prop: &'static str, class: &str, msg: String) -> Finding {
    Finding { prop, class: class.to_string(), msg }
}

#[derive(Default, Debug, Clone)]
pub struct KProbe {
    pub premise_failed: u32,
    pub checked_success: u32,
    pub checked_refusal: u32,
    pub must_succeed: u32,
    /// successful kernel calls on an edge between two differently anchored faces
    pub interface_edge: u32,
}

fn mid(a: P, b: P) -> P {
    let (a, b) = (pf(a), pf(b));
    fp((a[0] + b[0]) / 2.0, (a[1] + b[1]) / 2.0)
}

fn origin_of(s: &State, pv: &[u32], d: u32) -> Option<P> {
    s.vtx[pv[d as usize] as usize].map(|v| (v[0], v[1]))
}

fn vertex_coord_set(s: &State) -> BTreeSet<P> {
    let pv = s.partition(0);
    (1..s.n() as u32).filter(|&d| !s.unused[d as usize] && !s.is_free(d) && pv[d as usize] == d).filter_map(|d| s.vtx[d as usize].map(|v| (v[0], v[1]))).collect()
}

fn anchors_by_coord(s: &State) -> std::collections::BTreeMap<P, Option<u64>> {
    let pv = s.partition(0);
    let mut m = std::collections::BTreeMap::new();
    if !mask_has(s.kinds, K_VA) {
        return m;
    }
    for d in 1..s.n() as u32 {
        if !s.unused[d as usize] && !s.is_free(d) && pv[d as usize] == d {
            if let Some(v) = s.vtx[d as usize] {
                m.insert((v[0], v[1]), s.attrs[K_VA][d as usize]);
            }
        }
    }
    m
}

/// EdgeAnchor of every edge, keyed by its unordered pair of end coordinates; FaceAnchor of every
/// triangle, keyed by its canonical oriented coordinate triple.
fn edge_face_anchors(s: &State, mv: &MeshView) -> (std::collections::BTreeMap<(P, P), Option<u64>>, std::collections::BTreeMap<Vec<P>, Option<u64>>) {
    let (pe, pf_) = (s.partition(1), s.partition(2));
    let mut em: std::collections::BTreeMap<(P, P), (u32, Option<u64>)> = std::collections::BTreeMap::new();
    let mut ambiguous = BTreeSet::new();
    let mut fm = std::collections::BTreeMap::new();
    for f in &mv.faces {
        if mask_has(s.kinds, K_FA) {
            fm.insert(canon_poly(&f.pts), s.attrs[K_FA][pf_[f.darts[0] as usize] as usize]);
        }
        if mask_has(s.kinds, K_EA) {
            for (i, &d) in f.darts.iter().enumerate() {
                let (p, q) = (f.pts[i], f.pts[(i + 1) % f.pts.len()]);
                let (key, id) = ((p.min(q), p.max(q)), pe[d as usize]);
                if let Some((other, _)) = em.insert(key, (id, s.attrs[K_EA][id as usize])) {
                    if other != id {
                        ambiguous.insert(key);
                    }
                }
            }
        }
    }
    // two distinct edges between the same two points cannot be told apart by coordinates
    let em = em.into_iter().filter(|(k, _)| !ambiguous.contains(k)).map(|(k, (_, a))| (k, a)).collect();
    (em, fm)
}

// =============================================================================== C15

struct TriCtx {
    mv: MeshView,
    set: BTreeSet<[P; 3]>,
}

fn tri_premise(s: &State) -> Result<TriCtx, String> {
    s.wf()?;
    let mv = view(s)?;
    let set = tri_set(&mv)?;
    if !coords_distinct(s) {
        return Err("coordinates not pairwise distinct".into());
    }
    if let Some(m) = adjacency_mismatch(s, &mv) {
        return Err(m);
    }
    // every triangle clearly non-degenerate, all with the same orientation
    let mut signs = BTreeSet::new();
    for t in &set {
        let c = cross(t[0], t[1], t[2]);
        if c.abs() < 1e-9 {
            return Err("degenerate triangle".into());
        }
        signs.insert(c > 0.0);
    }
    if signs.len() > 1 {
        return Err("triangles of both orientations".into());
    }
    Ok(TriCtx { mv, set })
}

fn compare_tri_sets(prop: &'static str, what: &str, op: &Op, got: &BTreeSet<[P; 3]>, want: &BTreeSet<[P; 3]>) -> Option<Finding> {
    if got == want {
        return None;
    }
    let fmt = |t: &[P; 3]| format!("({:?},{:?},{:?})", pf(t[0]), pf(t[1]), pf(t[2]));
    let missing: Vec<String> = want.difference(got).take(4).map(fmt).collect();
    let extra: Vec<String> = got.difference(want).take(4).map(fmt).collect();
    Some(fnd(prop, what, format!("{op:?}: resulting triangles differ from the expected ones; missing {missing:?}, unexpected {extra:?}")))
}

pub fn check_remesh(pre: &State, post: &State, op: &Op, res: &Result<Res, String>, probe: &mut KProbe) -> Vec<Finding> {
    let mut out = vec![];
    if res.is_err() {
        return out;
    }
    let Ok(ctx) = tri_premise(pre) else {
        probe.premise_failed += 1;
        return out;
    };
    let pv = pre.partition(0);
    let o = |d: u32| origin_of(pre, &pv, d).unwrap();
    let (e, kind) = match op {
        Op::Swap { e } => (*e, 0),
        Op::CutInner { e, .. } => (*e, 1),
        Op::CutOuter { e, .. } => (*e, 2),
        Op::Collapse { e } => (*e, 3),
        _ => return out,
    };
    if e == 0 || pre.unused[e as usize] || pre.is_free(e) {
        probe.premise_failed += 1;
        return out;
    }
    let l = e;
    let r = pre.b(2, l);
    let (a, b, c) = (o(l), o(pre.b(1, l)), o(pre.b(0, l)));
    let d = if r != 0 { Some(o(pre.b(0, r))) } else { None };
    // the cuts take "free darts used to create the new edges": the statement makes no claim for
    // null, removed, linked or repeated spares (unlike C14's for the insertion kernels)
    let spares: &[u32] = match op {
        Op::CutInner { nd, .. } => nd,
        Op::CutOuter { nd, .. } => nd,
        _ => &[],
    };
    let spares_ok = spares.iter().enumerate().all(|(i, &x)| {
        x != 0 && (x as usize) < pre.n() && !pre.unused[x as usize] && pre.is_free(x) && !spares[..i].contains(&x)
    });
    if !spares_ok {
        probe.premise_failed += 1;
        return out;
    }
    if kind == 2 && r != 0 {
        // cut_outer_edge on an interior edge: outside the statement
        probe.premise_failed += 1;
        return out;
    }
    if kind == 1 && r == 0 {
        probe.premise_failed += 1;
        return out;
    }
    let mut want = ctx.set.clone();
    want.remove(&canon([a, b, c]));
    if let Some(d) = d {
        want.remove(&canon([b, a, d]));
    }
    let (dv, de, df): (i64, i64, i64);
    let mut expect_unused_delta = 0i64;
    let mut collapse_targets: Vec<P> = vec![];
    match kind {
        0 => {
            let d = d.unwrap();
            want.insert(canon([a, d, c]));
            want.insert(canon([d, b, c]));
            (dv, de, df) = (0, 0, 0);
        }
        1 | 2 => {
            let m = mid(a, b);
            want.insert(canon([a, m, c]));
            want.insert(canon([m, b, c]));
            if let Some(d) = d {
                want.insert(canon([b, m, d]));
                want.insert(canon([m, a, d]));
                (dv, de, df) = (1, 3, 2);
            } else {
                (dv, de, df) = (1, 2, 1);
            }
        }
        _ => {
            // link condition: the end points have no common neighbour besides the opposite corners
            let mut na = BTreeSet::new();
            let mut nb = BTreeSet::new();
            for t in &ctx.set {
                for i in 0..3 {
                    let (p, q) = (t[i], t[(i + 1) % 3]);
                    for (x, y) in [(p, q), (q, p)] {
                        if x == a {
                            na.insert(y);
                        }
                        if x == b {
                            nb.insert(y);
                        }
                    }
                }
            }
            let common: BTreeSet<P> = na.intersection(&nb).copied().collect();
            let mut allowed: BTreeSet<P> = BTreeSet::new();
            allowed.insert(c);
            if let Some(d) = d {
                allowed.insert(d);
            }
            if common != allowed {
                probe.premise_failed += 1;
                return out;
            }
            // the link condition on a mesh with boundary, with the usual convention of a virtual
            // vertex beyond the boundary: two boundary end points have that virtual vertex as a
            // common neighbour, which is an opposite corner only when the edge itself is on the
            // boundary (collapsing an interior edge between two boundary vertices pinches the
            // mesh whatever the implementation)
            if r != 0 {
                let on_boundary = |p: P| -> bool {
                    ctx.mv.faces.iter().any(|f| {
                        f.darts.iter().enumerate().any(|(i, &dd)| pre.b(2, dd) == 0 && (f.pts[i] == p || f.pts[(i + 1) % 3] == p))
                    })
                };
                if on_boundary(a) && on_boundary(b) {
                    probe.premise_failed += 1;
                    return out;
                }
            }
            // "leaving one vertex": some dart outside the removed triangles must start at an end
            // point, otherwise nothing is left to carry the resulting vertex (isolated triangle,
            // pair of triangles hanging by a corner) and the statement cannot be evaluated
            let removed: BTreeSet<u32> = [l, pre.b(1, l), pre.b(0, l)].into_iter().chain(if r != 0 { vec![r, pre.b(1, r), pre.b(0, r)] } else { vec![] }).collect();
            let survivor = (1..pre.n() as u32).any(|x| !pre.unused[x as usize] && !pre.is_free(x) && !removed.contains(&x) && { let p = o(x); p == a || p == b });
            if !survivor {
                probe.premise_failed += 1;
                return out;
            }
            collapse_targets = if mask_has(pre.kinds, K_VA) {
                let (ia, ib) = (pv[l as usize], pv[pre.b(1, l) as usize]);
                match (pre.attrs[K_VA][ia as usize], pre.attrs[K_VA][ib as usize]) {
                    (Some(x), Some(y)) => {
                        let (dx, dy) = (x >> 32, y >> 32);
                        if dx < dy { vec![a] } else if dy < dx { vec![b] } else { vec![mid(a, b)] }
                    }
                    _ => vec![a, b, mid(a, b)],
                }
            } else {
                vec![mid(a, b)]
            };
            if d.is_some() {
                (dv, de, df) = (-1, -3, -2);
                expect_unused_delta = 6;
            } else {
                (dv, de, df) = (-1, -2, -1);
                expect_unused_delta = 3;
            }
        }
    }
    probe.checked_success += 1;
    // ---- post conditions
    if let Err(e) = post.wf() {
        out.push(fnd("C15", "map-not-well-formed-after-kernel", format!("{op:?}: {e}")));
        return out;
    }
    let mvp = match view(post) {
        Ok(m) => m,
        Err(e) => {
            let class = if kind == 3 && r == 0 && e.contains("open") { "boundary-collapse-leaves-open-face" } else { "mesh-broken-after-kernel" };
            out.push(fnd("C15", class, format!("{op:?}: {e}")));
            return out;
        }
    };
    let got = match tri_set(&mvp) {
        Ok(s) => s,
        Err(e) => {
            out.push(fnd("C15", "non-triangular-face-after-kernel", format!("{op:?}: {e}")));
            return out;
        }
    };
    if kind == 3 {
        let mut matched = None;
        for &t in &collapse_targets {
            let mut w: BTreeSet<[P; 3]> = BTreeSet::new();
            for tri in &want {
                let has_a = tri.contains(&a);
                let has_b = tri.contains(&b);
                if has_a && has_b {
                    continue;
                }
                let m: Vec<P> = tri.iter().map(|&p| if p == a || p == b { t } else { p }).collect();
                w.insert(canon([m[0], m[1], m[2]]));
            }
            if w == got {
                matched = Some(t);
                break;
            }
            if collapse_targets.len() == 1 {
                if let Some(f) = compare_tri_sets("C15", "collapse-wrong-mesh", op, &got, &w) {
                    out.push(f);
                }
            }
        }
        match matched {
            None => {
                // is it the right mesh with the resulting vertex at an unexpected place?
                let old_pts: BTreeSet<P> = ctx.set.iter().flatten().copied().filter(|p| *p != a && *p != b).collect();
                let mut cands: BTreeSet<P> = got.iter().flatten().copied().filter(|p| !old_pts.contains(p)).collect();
                cands.insert(a);
                cands.insert(b);
                for tc in cands {
                    let mut w: BTreeSet<[P; 3]> = BTreeSet::new();
                    for tri in &want {
                        if tri.contains(&a) && tri.contains(&b) {
                            continue;
                        }
                        let m: Vec<P> = tri.iter().map(|&p| if p == a || p == b { tc } else { p }).collect();
                        w.insert(canon([m[0], m[1], m[2]]));
                    }
                    if w == got {
                        out.clear();
                        out.push(fnd("C15", "collapse-vertex-misplaced", format!("{op:?}: the edge {:?} - {:?} was collapsed onto {:?}; expected one of {:?}", pf(a), pf(b), pf(tc), collapse_targets.iter().map(|p| pf(*p)).collect::<Vec<_>>())));
                        return out;
                    }
                }
                if out.is_empty() {
                    out.push(fnd("C15", "collapse-wrong-mesh", format!("{op:?}: the resulting mesh is not the collapse of the edge onto an end point or the midpoint")));
                }
                return out;
            }
            Some(t) => {
                // orientation around the resulting vertex
                // sign claims only outside a band around zero (a collapse onto a collinear
                // boundary point yields a triangle of area 0 up to rounding)
                let signs: BTreeSet<bool> = got.iter().filter(|tri| tri.contains(&t)).map(|tri| cross(tri[0], tri[1], tri[2])).filter(|c| c.abs() > 1e-9).map(|c| c > 0.0).collect();
                if signs.len() > 1 {
                    let around: Vec<String> = got.iter().filter(|tri| tri.contains(&t)).map(|tri| format!("{:?} {:?} {:?} area {:.4}", pf(tri[0]), pf(tri[1]), pf(tri[2]), cross(tri[0], tri[1], tri[2]) / 2.0)).collect();
                    out.push(fnd("C15", "collapse-inverted-triangle", format!("{op:?}: triangles around the resulting vertex {:?} do not all have the same orientation: {around:?}", pf(t))));
                }
                if let Ok(Res::U(vid)) = res {
                    let at = post.vtx.get(*vid as usize).copied().flatten().map(|v| (v[0], v[1]));
                    if *vid != 0 && at != Some(t) {
                        out.push(fnd("C15", "collapse-returned-wrong-vertex", format!("{op:?}: returned vertex id {vid} holds {:?}, the resulting vertex is at {:?}", at.map(pf), pf(t))));
                    }
                }
            }
        }
        let du = post.unused.iter().filter(|&&u| u).count() as i64 - pre.unused.iter().filter(|&&u| u).count() as i64;
        if du != expect_unused_delta {
            out.push(fnd("C15", "collapse-removed-darts-not-flagged", format!("{op:?}: {du} darts newly flagged as removed, expected {expect_unused_delta}")));
        }
    } else {
        if let Some(mut f) = compare_tri_sets("C15", if kind == 0 { "swap-wrong-mesh" } else { "cut-wrong-mesh" }, op, &got, &want) {
            if kind == 0 {
                // narrower class for the recorded defect of swap_edge: the result is a sound
                // triangle mesh with the right counts in which exactly two vertices moved
                let (v_pre, v_post) = (vertex_coord_set(pre), vertex_coord_set(post));
                let (gone, new_) = (v_pre.difference(&v_post).count(), v_post.difference(&v_pre).count());
                // (geometric adjacency is not consulted: with displaced vertices two sides can
                // coincide geometrically)
                let sound = mvp.n_vertices == ctx.mv.n_vertices
                    && mvp.n_edges == ctx.mv.n_edges
                    && mvp.faces.len() == ctx.mv.faces.len();
                if sound && gone == 2 && new_ == 2 {
                    f.class = "swap-moves-end-points".into();
                } else {
                    f.msg = format!("{} [vertices gone {gone}, new {new_}, adjacency {:?}, counts V {}->{} E {}->{} F {}->{}]", f.msg, adjacency_mismatch(post, &mvp), ctx.mv.n_vertices, mvp.n_vertices, ctx.mv.n_edges, mvp.n_edges, ctx.mv.faces.len(), mvp.faces.len());
                }
            }
            out.push(f);
            return out;
        }
        // signed area of the modified region
        let before: f64 = ctx.set.difference(&got).map(|t| cross(t[0], t[1], t[2]) / 2.0).sum();
        let after: f64 = got.difference(&ctx.set).map(|t| cross(t[0], t[1], t[2]) / 2.0).sum();
        if !close(before, after, before.abs().max(after.abs())) {
            out.push(fnd("C15", "area-not-conserved", format!("{op:?}: signed area of the modified region {before} -> {after}")));
        }
        if pre.unused != post.unused[..pre.n()] {
            out.push(fnd("C15", "removal-flags-changed", format!("{op:?}: removal flags changed")));
        }
    }
    // (a swap whose other diagonal already is an edge of the mesh — an end point of degree 3 —
    // yields, by the statement's own description of the result, two sides between the same two
    // points: darts can then no longer be identified by their end points)
    let expected_has_double_side = {
        let mut seen = BTreeSet::new();
        !got.iter().all(|t| (0..3).all(|i| seen.insert((t[i], t[(i + 1) % 3]))))
    };
    if !expected_has_double_side {
        if let Some(m) = adjacency_mismatch(post, &mvp) {
            out.push(fnd("C15", "adjacency-differs-from-geometry", format!("{op:?}: {m}")));
        }
    }
    let (v0, e0, f0) = (ctx.mv.n_vertices as i64, ctx.mv.n_edges as i64, ctx.mv.faces.len() as i64);
    let (v1, e1, f1) = (mvp.n_vertices as i64, mvp.n_edges as i64, mvp.faces.len() as i64);
    if (v1 - v0, e1 - e0, f1 - f0) != (dv, de, df) {
        out.push(fnd("C15", "cell-counts-wrong", format!("{op:?}: (dV, dE, dF) = ({}, {}, {}), expected ({dv}, {de}, {df})", v1 - v0, e1 - e0, f1 - f0)));
    }
    // anchors of surviving edges and faces kept (cells identified by their coordinates; for a
    // collapse the cells touching the merged end points change shape and are not compared)
    let ((e0, f0a), (e1, f1a)) = (edge_face_anchors(pre, &ctx.mv), edge_face_anchors(post, &mvp));
    for (k, an) in &e0 {
        if let Some(an1) = e1.get(k) {
            if an1 != an {
                out.push(fnd("C15", "surviving-edge-anchor-changed", format!("{op:?}: anchor of the edge {:?} - {:?} changed from {an:?} to {an1:?}", pf(k.0), pf(k.1))));
                break;
            }
        }
    }
    for (k, an) in &f0a {
        if let Some(an1) = f1a.get(k) {
            if an1 != an {
                out.push(fnd("C15", "surviving-face-anchor-changed", format!("{op:?}: anchor of a face that was not modified changed from {an:?} to {an1:?}")));
                break;
            }
        }
    }
    if let Some(d) = d {
        if let (Some(x), Some(y)) = (f0a.get(&canon_poly(&[a, b, c])), f0a.get(&canon_poly(&[b, a, d]))) {
            if x != y {
                probe.interface_edge += 1;
            }
        }
    }
    // a cut subdivides the edge and its adjacent triangles: their anchors are kept by both parts
    if kind == 1 || kind == 2 {
        let m = mid(a, b);
        let ek = |p: P, q: P| (p.min(q), p.max(q));
        if let Some(Some(an)) = e0.get(&ek(a, b)) {
            for half in [ek(a, m), ek(m, b)] {
                if let Some(an1) = e1.get(&half) {
                    if *an1 != Some(*an) {
                        out.push(fnd("C15", "cut-edge-half-lost-anchor", format!("{op:?}: the cut edge was anchored to {an:?}, its half {:?} - {:?} is anchored to {an1:?}", pf(half.0), pf(half.1))));
                        break;
                    }
                }
            }
        }
        let mut parents = vec![([a, b, c], [[a, m, c], [m, b, c]])];
        if let Some(d) = d {
            parents.push(([b, a, d], [[b, m, d], [m, a, d]]));
        }
        for (parent, halves) in parents {
            if let Some(Some(an)) = f0a.get(&canon_poly(&parent)) {
                for h in halves {
                    if let Some(an1) = f1a.get(&canon_poly(&h)) {
                        if *an1 != Some(*an) {
                            out.push(fnd("C15", "cut-triangle-half-lost-anchor", format!("{op:?}: a cut triangle was anchored to {an:?}, one of its halves is anchored to {an1:?}")));
                            break;
                        }
                    }
                }
            }
        }
    }
    // anchors of surviving vertices kept (vertices identified by coordinates)
    let (a0, a1) = (anchors_by_coord(pre), anchors_by_coord(post));
    for (p, an) in &a0 {
        if kind == 3 && (*p == a || *p == b) {
            continue;
        }
        if let Some(an1) = a1.get(p) {
            if an1 != an {
                out.push(fnd("C15", "surviving-vertex-anchor-changed", format!("{op:?}: anchor of the vertex at {:?} changed from {an:?} to {an1:?}", pf(*p))));
            }
        }
    }
    out
}

// =============================================================================== C14

pub fn check_insert(pre: &State, post: &State, op: &Op, res: &Result<Res, String>, probe: &mut KProbe) -> Vec<Finding> {
    let mut out = vec![];
    let (e, nd, ts): (u32, Vec<u32>, Vec<Option<f64>>) = match op {
        Op::InsertVertex { e, nd, t } => (*e, vec![nd.0, nd.1], vec![t.map(f64::from_bits)]),
        Op::InsertVertices { e, nd, ts } => (*e, nd.clone(), ts.iter().map(|b| Some(f64::from_bits(*b))).collect()),
        _ => return out,
    };
    if pre.wf().is_err() || e == 0 || (e as usize) >= pre.n() || pre.unused[e as usize] {
        probe.premise_failed += 1;
        return out;
    }
    let single = matches!(op, Op::InsertVertex { .. });
    let k = ts.len();
    let d1 = e;
    let d2 = pre.b(2, d1);
    let s1 = pre.b(1, d1);
    let pv = pre.partition(0);
    let v1 = origin_of(pre, &pv, d1);
    let v2 = if s1 != 0 { origin_of(pre, &pv, s1) } else if d2 != 0 { origin_of(pre, &pv, d2) } else { None };
    // ---- the documented error cases
    let (first, second): (Vec<u32>, Vec<u32>) = if single { (vec![nd[0]], vec![nd[1]]) } else if nd.len() == 2 * k { (nd[..k].to_vec(), nd[k..].to_vec()) } else { (vec![], vec![]) };
    let usable = |d: u32| d != 0 && (d as usize) < pre.n() && !pre.unused[d as usize] && pre.is_free(d);
    let mut invalid: Option<&str> = None;
    if !single && nd.len() != 2 * k {
        invalid = Some("wrong dart count");
    } else if first.iter().any(|&d| !usable(d)) {
        invalid = Some("non-free or null spare dart (first half)");
    } else if d2 != 0 && second.iter().any(|&d| !usable(d)) {
        invalid = Some("non-free or null spare dart (second half)");
    } else if ts.iter().any(|t| t.is_some_and(|t| !(t > 0.0 && t < 1.0))) {
        invalid = Some("position outside ]0,1[");
    } else if v1.is_none() || v2.is_none() {
        invalid = Some("undefined end point");
    }
    if let Some(why) = invalid {
        probe.checked_refusal += 1;
        if res.is_ok() {
            out.push(fnd("C14", "invalid-insertion-accepted", format!("{op:?} returned Ok although: {why}")));
        }
        return out;
    }
    if res.is_err() {
        return out;
    }
    // spare darts must be pairwise distinct and distinct from the edge for the structural claim
    let mut used: Vec<u32> = first.clone();
    if d2 != 0 {
        used.extend(&second);
    }
    let mut su = used.clone();
    su.sort_unstable();
    su.dedup();
    if su.len() != used.len() || used.contains(&d1) || used.contains(&d2) {
        probe.premise_failed += 1;
        return out;
    }
    probe.checked_success += 1;
    if let Err(e) = post.wf() {
        out.push(fnd("C14", "map-not-well-formed-after-insertion", format!("{op:?}: {e}")));
        return out;
    }
    let (v1, v2) = (pf(v1.unwrap()), pf(v2.unwrap()));
    // ---- the edge is now k+1 consecutive segments
    let mut chain = vec![d1];
    let mut x = post.b(1, d1);
    for _ in 0..k {
        chain.push(x);
        x = if x != 0 { post.b(1, x) } else { 0 };
    }
    let tail = x;
    let new1: Vec<u32> = chain[1..].to_vec();
    let mut sorted_new = new1.clone();
    sorted_new.sort_unstable();
    let mut sorted_first = first.clone();
    sorted_first.sort_unstable();
    if sorted_new != sorted_first || tail != s1 {
        out.push(fnd("C14", "edge-not-subdivided", format!("{op:?}: following beta1 from {d1} gives {chain:?} then {tail}; expected the {k} spare darts {first:?} in some order and then the old successor {s1}")));
        return out;
    }
    let pvp = post.partition(0);
    let scale = v1[0].abs().max(v1[1].abs()).max(v2[0].abs()).max(v2[1].abs()).max(1e-9);
    for (i, &xd) in new1.iter().enumerate() {
        let want = match ts[i] {
            None => [(v1[0] + v2[0]) / 2.0, (v1[1] + v2[1]) / 2.0],
            Some(t) => [v1[0] + (v2[0] - v1[0]) * t, v1[1] + (v2[1] - v1[1]) * t],
        };
        match origin_of(post, &pvp, xd) {
            Some(g) => {
                let g = pf(g);
                if (g[0] - want[0]).abs() > 1e-12 * scale || (g[1] - want[1]).abs() > 1e-12 * scale {
                    out.push(fnd("C14", "new-vertex-misplaced", format!("{op:?}: vertex {} of the subdivision is at {g:?}, expected {want:?}", i + 1)));
                }
            }
            None => out.push(fnd("C14", "new-vertex-undefined", format!("{op:?}: vertex {} of the subdivision has no coordinates", i + 1))),
        }
    }
    let mut new2: Vec<u32> = vec![];
    if d2 != 0 {
        let s2 = pre.b(1, d2);
        let mut chain2 = vec![d2];
        let mut y = post.b(1, d2);
        for _ in 0..k {
            chain2.push(y);
            y = if y != 0 { post.b(1, y) } else { 0 };
        }
        new2 = chain2[1..].to_vec();
        let mut sn = new2.clone();
        sn.sort_unstable();
        let mut ss = second.clone();
        ss.sort_unstable();
        if sn != ss || y != s2 {
            out.push(fnd("C14", "edge-not-subdivided", format!("{op:?}: following beta1 from the opposite dart {d2} gives {chain2:?} then {y}; expected the spare darts {second:?} then {s2}")));
            return out;
        }
        // both sides paired in reverse order
        for i in 0..=k {
            let (p, q) = (chain[i], chain2[k - i]);
            if post.b(2, p) != q {
                out.push(fnd("C14", "sides-not-paired-in-reverse", format!("{op:?}: beta2({p}) = {}, expected {q}", post.b(2, p))));
            }
        }
    } else {
        for &p in &chain {
            if post.b(2, p) != 0 {
                out.push(fnd("C14", "boundary-edge-got-2-linked", format!("{op:?}: beta2({p}) = {} on a one-sided edge", post.b(2, p))));
            }
        }
    }
    // ---- nothing else changed
    let touched: BTreeSet<u32> = chain.iter().chain(new2.iter()).copied().chain([d2].into_iter().filter(|&d| d != 0)).collect();
    for d in 0..pre.n() as u32 {
        if touched.contains(&d) {
            continue;
        }
        let (b0, b1) = (pre.beta[d as usize], post.beta[d as usize]);
        let mut want = b0;
        if d != 0 && d == s1 {
            want[0] = *chain.last().unwrap();
        }
        if d != 0 && d2 != 0 && d == pre.b(1, d2) {
            want[0] = *new2.last().unwrap();
        }
        if b1 != want {
            out.push(fnd("C14", if d == 0 { "null-dart-modified" } else { "other-dart-modified" }, format!("{op:?}: images of dart {d} changed from {b0:?} to {b1:?} (expected {want:?})")));
        }
    }
    if pre.unused != post.unused[..pre.n()] {
        out.push(fnd("C14", "removal-flags-changed", format!("{op:?}: removal flags changed")));
    }
    // every former vertex keeps its coordinates (vertices identified through a dart)
    for d in 1..pre.n() as u32 {
        if pre.unused[d as usize] || pre.is_free(d) {
            continue;
        }
        if origin_of(pre, &pv, d) != origin_of(post, &pvp, d) {
            out.push(fnd("C14", "other-vertex-moved", format!("{op:?}: the vertex at the origin of dart {d} changed from {:?} to {:?}", origin_of(pre, &pv, d).map(pf), origin_of(post, &pvp, d).map(pf))));
            break;
        }
    }
    out
}

// =============================================================================== C13

fn seg_intersect(p1: P, p2: P, p3: P, p4: P) -> bool {
    let d1 = cross(p3, p4, p1);
    let d2 = cross(p3, p4, p2);
    let d3 = cross(p1, p2, p3);
    let d4 = cross(p1, p2, p4);
    (d1 > 0.0) != (d2 > 0.0) && (d3 > 0.0) != (d4 > 0.0)
}

pub fn polygon_is_simple(pts: &[P]) -> bool {
    let n = pts.len();
    for i in 0..n {
        for j in i + 1..n {
            if j == i || (j + 1) % n == i || (i + 1) % n == j {
                continue;
            }
            if seg_intersect(pts[i], pts[(i + 1) % n], pts[j], pts[(j + 1) % n]) {
                return false;
            }
        }
    }
    true
}

/// Square of the extent of the point set (larger side of its bounding box): the unit in which
/// cross products and areas are judged, so that the predicates do not depend on the length unit.
pub fn extent2(pts: &[P]) -> f64 {
    let (mut x0, mut x1, mut y0, mut y1) = (f64::INFINITY, f64::NEG_INFINITY, f64::INFINITY, f64::NEG_INFINITY);
    for p in pts {
        let q = pf(*p);
        x0 = x0.min(q[0]);
        x1 = x1.max(q[0]);
        y0 = y0.min(q[1]);
        y1 = y1.max(q[1]);
    }
    let l = (x1 - x0).max(y1 - y0) / 4.0; // (the generators' polygons at scale 1 have extent about 4)
    (l * l).max(f64::MIN_POSITIVE)
}

pub fn general_position(pts: &[P]) -> bool {
    let n = pts.len();
    let u = extent2(pts);
    for i in 0..n {
        for j in i + 1..n {
            for k in j + 1..n {
                if cross(pts[i], pts[j], pts[k]).abs() < 1e-6 * u {
                    return false;
                }
            }
        }
    }
    true
}

pub fn strictly_convex(pts: &[P]) -> bool {
    let n = pts.len();
    let s = signed_area(pts) > 0.0;
    let u = extent2(pts);
    (0..n).all(|i| {
        let c = cross(pts[i], pts[(i + 1) % n], pts[(i + 2) % n]);
        c.abs() > 1e-6 * u && (c > 0.0) == s
    })
}

pub fn check_triangulate(pre: &State, post: &State, op: &Op, res: &Result<Res, String>, probe: &mut KProbe) -> Vec<Finding> {
    let mut out = vec![];
    let (f, nd, which) = match op {
        Op::Fan { f, nd } => (*f, nd, 0),
        Op::FanConvex { f, nd } => (*f, nd, 1),
        Op::EarclipCcw { f, nd } => (*f, nd, 2),
        Op::EarclipCw { f, nd } => (*f, nd, 3),
        _ => return out,
    };
    if pre.wf().is_err() || f == 0 || (f as usize) >= pre.n() || pre.unused[f as usize] {
        probe.premise_failed += 1;
        return out;
    }
    let w = pre.face_walk(f, true);
    let n = w.fwd.len();
    let pv = pre.partition(0);
    let pts: Option<Vec<P>> = w.fwd.iter().map(|&d| origin_of(pre, &pv, d)).collect();
    let usable = |d: u32| d != 0 && (d as usize) < pre.n() && !pre.unused[d as usize] && pre.is_free(d);
    let mut snd = nd.clone();
    snd.sort_unstable();
    snd.dedup();
    let premise = w.closed && n >= 4 && pts.is_some() && nd.len() == 2 * (n - 3) && snd.len() == nd.len() && nd.iter().all(|&d| usable(d));
    if !premise {
        probe.premise_failed += 1;
        return out;
    }
    let pts = pts.unwrap();
    let mut sp = pts.clone();
    sp.sort_unstable();
    sp.dedup();
    if sp.len() != n || !polygon_is_simple(&pts) || pre.kinds & 0x3f != 0 {
        probe.premise_failed += 1;
        return out;
    }
    let area = signed_area(&pts);
    let ccw = area > 0.0;
    match res {
        Err(e) => {
            // kernels that must succeed
            let must = match which {
                0 | 1 => strictly_convex(&pts),
                2 => ccw && general_position(&pts),
                _ => !ccw && general_position(&pts),
            };
            if must {
                probe.must_succeed += 1;
                out.push(fnd("C13", "triangulation-refused-valid-polygon", format!("{op:?} on a simple {} polygon with {n} sides ({}) returned {e}", if ccw { "counter-clockwise" } else { "clockwise" }, if strictly_convex(&pts) { "strictly convex" } else { "general position" })));
            } else if which == 0 && !e.contains("NonFannable") {
                out.push(fnd("C13", "fan-failed-with-other-error", format!("{op:?} failed with {e} instead of reporting that the polygon cannot be fanned")));
            }
            return out;
        }
        Ok(_) => {}
    }
    if which == 1 && !strictly_convex(&pts) {
        // fan_convex_cell on a non-convex polygon: outside the statement
        probe.premise_failed += 1;
        return out;
    }
    if (which == 2 && !ccw) || (which == 3 && ccw) {
        // ear clipping with the wrong announced orientation: outside the statement
        probe.premise_failed += 1;
        return out;
    }
    probe.checked_success += 1;
    if matches!(which, 0 | 1) && strictly_convex(&pts) || matches!(which, 2 | 3) && general_position(&pts) {
        probe.must_succeed += 1;
    }
    if let Err(e) = post.wf() {
        out.push(fnd("C13", "map-not-well-formed-after-triangulation", format!("{op:?}: {e}")));
        return out;
    }
    let region: BTreeSet<u32> = w.fwd.iter().chain(nd.iter()).copied().collect();
    let pvp = post.partition(0);
    // faces made of the polygon's darts and the spare darts
    let mut seen: BTreeSet<u32> = BTreeSet::new();
    let mut tris: Vec<Vec<P>> = vec![];
    for &d in &region {
        if seen.contains(&d) {
            continue;
        }
        let fw = post.face_walk(d, true);
        for x in &fw.fwd {
            seen.insert(*x);
        }
        if !fw.closed || fw.fwd.len() != 3 || fw.fwd.iter().any(|x| !region.contains(x)) {
            out.push(fnd("C13", "face-not-a-triangle", format!("{op:?}: after the call the face of dart {d} is {:?} (closed: {})", fw.fwd, fw.closed)));
            return out;
        }
        let tp: Option<Vec<P>> = fw.fwd.iter().map(|&x| origin_of(post, &pvp, x)).collect();
        match tp {
            Some(tp) => tris.push(tp),
            None => {
                out.push(fnd("C13", "triangle-corner-undefined", format!("{op:?}: a corner of triangle {:?} has no coordinates", fw.fwd)));
                return out;
            }
        }
    }
    if tris.len() != n - 2 {
        out.push(fnd("C13", "wrong-triangle-count", format!("{op:?}: {} triangles for a polygon with {n} sides", tris.len())));
    }
    let orig: BTreeSet<P> = pts.iter().copied().collect();
    let mut sum = 0.0;
    for t in &tris {
        if t.iter().any(|p| !orig.contains(p)) {
            out.push(fnd("C13", "triangle-uses-foreign-vertex", format!("{op:?}: triangle {:?} uses a vertex that is not an original corner (coordinates changed?)", t.iter().map(|p| pf(*p)).collect::<Vec<_>>())));
        }
        let a = signed_area(t);
        sum += a;
        if (a > 0.0) != ccw || a.abs() < 1e-12 * extent2(&pts) {
            out.push(fnd("C13", "triangle-wrong-orientation", format!("{op:?}: triangle {:?} has signed area {a}, the polygon {area}", t.iter().map(|p| pf(*p)).collect::<Vec<_>>())));
        }
    }
    if !close(sum, area, area) {
        out.push(fnd("C13", "areas-do-not-add-up", format!("{op:?}: triangle areas sum to {sum}, polygon area {area}")));
    }
    // neighbour adjacency across the polygon's sides, all other darts, all other vertices
    for &d in &w.fwd {
        if post.b(2, d) != pre.b(2, d) {
            out.push(fnd("C13", "side-adjacency-changed", format!("{op:?}: beta2({d}) changed from {} to {}", pre.b(2, d), post.b(2, d))));
        }
    }
    for d in 0..pre.n() as u32 {
        if region.contains(&d) {
            continue;
        }
        if pre.beta[d as usize] != post.beta[d as usize] {
            out.push(fnd("C13", "other-face-modified", format!("{op:?}: images of dart {d} changed from {:?} to {:?}", pre.beta[d as usize], post.beta[d as usize])));
            break;
        }
    }
    if vertex_coord_set(pre) != vertex_coord_set(post) {
        out.push(fnd("C13", "vertex-coordinates-changed", format!("{op:?}: the set of vertex coordinates changed")));
    }
    out
}
