//! One simulated execution: run a closure under the seeded scheduler, catch panics, deadlocks
//! and step-bound overruns, and hand back the closure's value with the scheduler's record.

use std::cell::RefCell;
use std::panic::{self, AssertUnwindSafe};
use std::sync::{Arc, Mutex};

use shuttle::{Config, FailurePersistence, MaxSteps, Runner};

use crate::sched::{SchedKind, SchedOut, SchedSpec, SimScheduler};

#[derive(Debug)]
pub enum Outcome<T> {
    Done(T),
    /// a simulated thread (or the harness) panicked; message with location
    Panic(String),
    /// every task blocked; shuttle's description of the blocked tasks
    Deadlock(String),
    /// the hard decision bound was exceeded
    StepBound,
    /// one transaction attempt exceeded the instrumented STM's bound on transactional accesses
    /// (a loop inside an attempt that performs no synchronisation: no schedule can end it)
    Livelock,
}

pub struct ExecResult<T> {
    pub outcome: Outcome<T>,
    pub sched: SchedOut,
    pub stm: fast_stm::verif::Stats,
}

thread_local! {
    static LAST_PANIC: RefCell<Option<String>> = const { RefCell::new(None) };
    static LAST_STATS: RefCell<fast_stm::verif::Stats> = RefCell::new(fast_stm::verif::Stats::default());
    static STATS_TAKEN: std::cell::Cell<bool> = const { std::cell::Cell::new(false) };
}

/// Install the quiet panic hook. shuttle installs its own (noisy) hook once, at the first run;
/// so run one trivial execution first and replace the hook afterwards.
pub fn init() {
    let (s, _) = SimScheduler::new(SchedSpec { kind: SchedKind::Fair, seed: 0, early_wake_pm: 0, fair_after: u32::MAX, replay: None, steer_pm: 0 });
    let mut cfg = Config::new();
    cfg.failure_persistence = FailurePersistence::None;
    Runner::new(s, cfg).run(|| {});
    panic::set_hook(Box::new(|info| {
        let msg = info.to_string();
        LAST_PANIC.with(|p| *p.borrow_mut() = Some(msg));
    }));
}

/// Remember the STM counters of the running execution (called by scenario code right before it
/// returns, and by the panic path through `snapshot_stats`).
pub fn snapshot_stats() {
    let s = fast_stm::verif::stats();
    LAST_STATS.with(|l| *l.borrow_mut() = s);
    STATS_TAKEN.with(|t| t.set(true));
}

pub fn execute<T, F>(spec: SchedSpec, max_steps: usize, f: F) -> ExecResult<T>
where
    T: Send + 'static,
    F: Fn() -> T + Send + Sync + 'static,
{
    let (sched, out) = SimScheduler::new(spec);
    let mut cfg = Config::new();
    cfg.failure_persistence = FailurePersistence::None;
    cfg.max_steps = MaxSteps::FailAfter(max_steps);
    cfg.stack_size = 0x10000 * 4;
    let slot: Arc<Mutex<Option<T>>> = Arc::new(Mutex::new(None));
    let slot2 = slot.clone();
    LAST_PANIC.with(|p| *p.borrow_mut() = None);
    let r = panic::catch_unwind(AssertUnwindSafe(|| {
        Runner::new(sched, cfg).run(move || {
            fast_stm::verif::reset_execution();
            STATS_TAKEN.with(|t| t.set(false));
            let v = f();
            if !STATS_TAKEN.with(|t| t.get()) {
                snapshot_stats();
            }
            *slot2.lock().unwrap() = Some(v);
        });
    }));
    let sched_out = out.lock().unwrap().clone();
    let stm = match &r {
        Ok(()) => LAST_STATS.with(|l| *l.borrow()),
        Err(_) => fast_stm::verif::stats(),
    };
    let outcome = match r {
        Ok(()) => match slot.lock().unwrap().take() {
            Some(v) => Outcome::Done(v),
            None => Outcome::Panic("execution ended without a value".into()),
        },
        Err(payload) => {
            let short = if let Some(s) = payload.downcast_ref::<String>() {
                s.clone()
            } else if let Some(s) = payload.downcast_ref::<&str>() {
                (*s).to_string()
            } else {
                "non-string panic payload".to_string()
            };
            let full = LAST_PANIC.with(|p| p.borrow_mut().take()).unwrap_or_else(|| short.clone());
            if short.starts_with("STM-OP-BOUND") {
                Outcome::Livelock
            } else if short.starts_with("deadlock!") {
                Outcome::Deadlock(short)
            } else if short.starts_with("exceeded max_steps") {
                Outcome::StepBound
            } else {
                Outcome::Panic(full)
            }
        }
    };
    ExecResult { outcome, sched: sched_out, stm }
}

/// Single-task execution (construction, serial references, snapshots) under the fair scheduler.
pub fn execute_serial<T, F>(f: F) -> ExecResult<T>
where
    T: Send + 'static,
    F: Fn() -> T + Send + Sync + 'static,
{
    execute(
        SchedSpec { kind: SchedKind::Fair, seed: 0, early_wake_pm: 0, fair_after: u32::MAX, replay: None, steer_pm: 0 },
        50_000_000,
        f,
    )
}

pub fn last_panic() -> Option<String> {
    LAST_PANIC.with(|p| p.borrow().clone())
}
