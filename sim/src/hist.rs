//! Single-client histories: a sequence of public calls (transactions in any runner form and
//! exclusive `&mut` operations) run against one real map inside one single-task execution, with
//! the statement-level oracles evaluated after every step on full snapshots.

use std::sync::Arc;

use serde::{Deserialize, Serialize};

use crate::anymap::{AnyMap, KindOrder, build_map};
use crate::exec::{Outcome, execute_serial};
use crate::faults;
use crate::ops::{Op, Tx, TxOut, TxValue, run_tx};
use crate::oracle::*;
use crate::state::*;

#[derive(Clone, Debug, PartialEq, Serialize, Deserialize)]
pub enum Step {
    Tx(Tx),
    AddFreeDart,
    AddFreeDarts(u32),
    InsertFreeDart,
    RemoveFreeDart(u32),
    /// `remove_free_dart(d)` whatever the state of `d` (in range, non-null): on a linked or
    /// already removed dart the call must refuse, which it does by panicking; the panic is
    /// caught and counts as the refusal
    RemoveAnyDart(u32),
}

#[derive(Clone, Debug, PartialEq, Serialize, Deserialize)]
pub struct History {
    pub init: State,
    pub order: KindOrder,
    pub steps: Vec<Step>,
    /// F2 plan for the single client (indexes of eligible commit attempts)
    #[serde(default)]
    pub f2: Vec<u32>,
    /// check ids/orbits/iterators (C03) every `c03_every` steps (0 = never) and at the end
    #[serde(default)]
    pub c03_every: u32,
}

#[derive(Clone, Copy, Debug, Default)]
pub struct Checks {
    pub wf: bool,
    pub sew_effect: bool,
    pub error_unchanged: bool,
    pub ids_orbits: bool,
    pub alloc: bool,
    /// statement-level kernel oracles (C13, C14, C15)
    pub kernels: bool,
}

#[derive(Clone, Debug)]
pub struct StepFinding {
    pub step: usize,
    pub finding: Finding,
}

#[derive(Clone, Debug, Default)]
pub struct HistProbes {
    pub steps: u64,
    pub tx_ok: u64,
    pub tx_err: u64,
    pub err_after_write: u64,
    pub sew_ok: u64,
    pub unsew_ok: u64,
    pub merges: u64,
    pub splits: u64,
    pub one_sided: u64,
    pub from_none: u64,
    pub hedged: u64,
    pub multi: u64,
    pub migrated_far: u64,
    pub arms: [u64; 4],
    pub rejections_made_call_fail: u64,
    pub c03_queries: u64,
    pub reexecuted: u64,
    pub states: Vec<u64>,
    pub alloc_reuse: u64,
    pub alloc_append: u64,
    pub illegal_removals: u64,
    pub callbacks: u64,
    pub k_premise_failed: u64,
    pub k_checked_success: u64,
    pub k_checked_refusal: u64,
    pub k_must_succeed: u64,
    pub k_interface_edge: u64,
    pub k_ok: std::collections::BTreeMap<String, u64>,
}

pub struct HistOut {
    /// the steps actually executed (generated adaptively or taken from the history)
    pub steps: Vec<Step>,
    pub findings: Vec<StepFinding>,
    pub probes: HistProbes,
    pub outs: Vec<Option<TxOut>>,
    pub fin: State,
}

/// Cell ids of every dart as computed by the real map (index [orbit kind][dart]).
fn real_partitions(map: &AnyMap, s: &State) -> Vec<Vec<u32>> {
    (0..3u8)
        .map(|o| (0..s.n() as u32).map(|d| if d == 0 || s.unused[d as usize] { 0 } else { map.cell_id(o, d) }).collect())
        .collect()
}

/// `remove_free_dart(d)` with the refusal (a panic raised by the method's assertions, before or
/// after its transaction, never while a lock is held) caught. Returns true when refused.
pub fn remove_catching(map: &mut AnyMap, d: u32) -> bool {
    std::panic::catch_unwind(std::panic::AssertUnwindSafe(|| map.remove_free_dart(d))).is_err()
}

fn model_valid_for_remove(s: &State, d: u32) -> bool {
    (d as usize) < s.n() && d != 0 && !s.unused[d as usize] && s.is_free(d)
}

fn c03_check(map: &AnyMap, s: &State, probes: &mut HistProbes, findings: &mut Vec<StepFinding>, step: usize) {
    let darts: Vec<u32> = (1..s.n() as u32).collect();
    let q = Queries {
        orbit: &|p, d| map.orbit(p, d),
        orbit_tx: &|p, d| fast_stm::atomically(|t| map.orbit_tx(t, p, d)),
        cell_id: &|o, d| map.cell_id(o, d),
        cell_id_tx: &|o, d| fast_stm::atomically(|t| map.cell_id_tx(t, o, d)),
        iter_cells: &|o| map.iter_cells(o),
        i_cell: &|o, d| map.i_cell(o, d),
        custom: &|k, d| map.custom_orbit(k, d),
        custom_tx: &|k, d| fast_stm::atomically(|t| map.custom_orbit_tx(t, k, d)),
        pair: &|p1, d1, p2, d2| map.orbit_pair(p1, d1, p2, d2),
    };
    for f in check_ids_orbits(s, &q, &darts, &mut probes.c03_queries) {
        findings.push(StepFinding { step, finding: f });
    }
}

/// Run the history (must be called inside an execution).
pub fn run_history_here(h: &History, checks: Checks, stop_at_first: bool) -> HistOut {
    let steps = h.steps.clone();
    run_history_with(h, checks, stop_at_first, &mut |i, _| steps.get(i).cloned())
}

/// Run a history whose steps come from `source(step index, current state)`: either the fixed
/// list of a replay file or a seeded generator that looks at the current state (so that most
/// calls have meaningful arguments). The executed steps are returned in `HistOut::steps`.
pub fn run_history_with(h: &History, checks: Checks, stop_at_first: bool, source: &mut dyn FnMut(usize, &State) -> Option<Step>) -> HistOut {
    let (mut map, _) = build_map(&h.init, &h.order);
    fast_stm::verif::set_sim_thread(1, h.f2.clone());
    faults::reset_thread();
    let kinds = h.init.kinds;
    let mut pre = map.snapshot(kinds);
    let mut findings: Vec<StepFinding> = vec![];
    let mut probes = HistProbes::default();
    let mut outs = vec![];
    if pre != h.init {
        findings.push(StepFinding { step: 0, finding: Finding { prop: "HARNESS", class: "build-mismatch".into(), msg: format!("map built from the recipe differs from it: {}", pre.diff(&h.init)) } });
    }
    let mut executed: Vec<Step> = vec![];
    let mut tainted = false;
    let mut si = 0usize;
    while let Some(step_owned) = source(si, &pre) {
        let step = &step_owned;
        executed.push(step_owned.clone());
        probes.steps += 1;
        let mut out: Option<TxOut> = None;
        let pre_derived = if checks.error_unchanged { Some(map.derived()) } else { None };
        let mut real_pre: Option<Vec<Vec<u32>>> = None;
        match step {
            Step::Tx(tx) => {
                if checks.sew_effect && pre.dim == 3 && tx.ops.len() == 1 && matches!(tx.ops[0], Op::Sew { .. } | Op::Unsew { .. }) {
                    real_pre = Some(real_partitions(&map, &pre));
                }
                out = Some(run_tx(&map, tx));
            }
            Step::AddFreeDart => {
                let id = map.add_free_dart();
                probes.alloc_append += 1;
                if checks.alloc {
                    alloc_checks(&map, &pre, id, 1, false, si, &mut findings);
                }
            }
            Step::AddFreeDarts(n) => {
                let id = map.add_free_darts(*n as usize);
                probes.alloc_append += 1;
                if checks.alloc {
                    alloc_checks(&map, &pre, id, *n, false, si, &mut findings);
                }
            }
            Step::InsertFreeDart => {
                let id = map.insert_free_dart();
                if (id as usize) < pre.n() {
                    probes.alloc_reuse += 1;
                } else {
                    probes.alloc_append += 1;
                }
                if checks.alloc {
                    alloc_checks(&map, &pre, id, 1, true, si, &mut findings);
                }
            }
            Step::RemoveFreeDart(d) => {
                // only issued when legal on the model (refusals: `RemoveAnyDart`)
                if model_valid_for_remove(&pre, *d) {
                    map.remove_free_dart(*d);
                }
            }
            Step::RemoveAnyDart(d) => {
                if *d != 0 && (*d as usize) < pre.n() {
                    let legal = model_valid_for_remove(&pre, *d);
                    let refused = remove_catching(&mut map, *d);
                    if !legal {
                        probes.illegal_removals += 1;
                        if checks.alloc && !refused {
                            let (class, what) = if pre.unused[*d as usize] { ("double-removal-accepted", "already removed") } else { ("removal-of-linked-dart-accepted", "linked") };
                            findings.push(StepFinding { step: si, finding: Finding { prop: "C18", class: class.into(), msg: format!("remove_free_dart({d}) on a {what} dart was not refused") } });
                        }
                    } else if refused && checks.alloc {
                        findings.push(StepFinding { step: si, finding: Finding { prop: "C18", class: "removal-of-free-dart-refused".into(), msg: format!("remove_free_dart({d}) on a free in-use dart panicked") } });
                    }
                }
            }
        }
        let post = map.snapshot(kinds);
        probes.states.push(post.hash64());
        if std::env::var("VERIF_TRACE").is_ok() {
            eprintln!("TRACE step {si} {step:?} -> {:?}", out.as_ref().map(|o| &o.value));
            eprintln!("TRACE   diff post vs pre: {}", post.diff(&pre));
            if std::env::var("VERIF_TRACE").as_deref() == Ok("2") {
                eprintln!("TRACE   post state: {}", serde_json::to_string(&post).unwrap());
            }
            if let Some(rp) = &real_pre {
                let rq = real_partitions(&map, &post);
                eprintln!("TRACE   real vertex ids pre : {:?}", rp[0]);
                eprintln!("TRACE   model vertex ids pre: {:?}", pre.partition(0));
                eprintln!("TRACE   real vertex ids post: {:?}", rq[0]);
                eprintln!("TRACE   model vertex ids post:{:?}", post.partition(0));
            }
        }
        if checks.wf {
            if let Err(e) = post.wf() {
                let prop = if post.dim == 2 { "C01" } else { "C02" };
                findings.push(StepFinding { step: si, finding: Finding { prop, class: wf_class(&e), msg: format!("after step {si} {step:?}: {e}") } });
            }
        }
        if let (Step::Tx(tx), Some(o)) = (step, &out) {
            if checks.kernels && tx.ops.len() == 1 {
                let res: Result<crate::ops::Res, String> = match &o.value {
                    TxValue::Ok(v) => Ok(v[0].clone()),
                    TxValue::Err(_, e) => Err(e.clone()),
                    TxValue::Abandoned => Err("Abandoned".into()),
                };
                let mut kp = crate::koracle::KProbe::default();
                let mut fs = crate::koracle::check_remesh(&pre, &post, &tx.ops[0], &res, &mut kp);
                fs.extend(crate::koracle::check_insert(&pre, &post, &tx.ops[0], &res, &mut kp));
                fs.extend(crate::koracle::check_triangulate(&pre, &post, &tx.ops[0], &res, &mut kp));
                probes.k_premise_failed += u64::from(kp.premise_failed);
                probes.k_checked_success += u64::from(kp.checked_success);
                probes.k_checked_refusal += u64::from(kp.checked_refusal);
                probes.k_must_succeed += u64::from(kp.must_succeed);
                probes.k_interface_edge += u64::from(kp.interface_edge);
                if res.is_ok() {
                    let name: String = format!("{:?}", tx.ops[0]).chars().take_while(|c| c.is_alphanumeric()).collect();
                    *probes.k_ok.entry(name).or_default() += 1;
                }
                let any_finding = !fs.is_empty();
                for f in fs {
                    findings.push(StepFinding { step: si, finding: f });
                }
                if res.is_ok() && (kp.premise_failed > 0 || any_finding) {
                    // a successful call outside the statement's premise (or one that already
                    // broke the property): later states are not in the quantifier's domain
                    tainted = true;
                }
            }
            probes.callbacks += u64::from(o.callbacks);
            if o.attempts > 1 {
                probes.reexecuted += 1;
            }
            match &o.value {
                TxValue::Ok(_) => {
                    probes.tx_ok += 1;
                    if o.rejections > 0 {
                        let prop = if post.dim == 2 { "C04" } else { "C05" };
                        findings.push(StepFinding { step: si, finding: Finding { prop, class: "rejected-merge-did-not-fail-call".into(), msg: format!("step {si} {tx:?} returned Ok although {} attribute callback(s) of its last attempt returned an error", o.rejections) } });
                    }
                    if checks.sew_effect && tx.ops.len() == 1 {
                        let prop = if post.dim == 2 { "C04" } else { "C05" };
                        let mut sp = SewProbe::default();
                        let real_post = real_pre.as_ref().map(|_| real_partitions(&map, &post));
                        let rp = match (&real_pre, &real_post) {
                            (Some(a), Some(b)) => Some((a.as_slice(), b.as_slice())),
                            _ => None,
                        };
                        let fs = check_sew_effect(prop, &pre, &post, &tx.ops[0], &mut sp, rp);
                        match &tx.ops[0] {
                            Op::Sew { .. } => probes.sew_ok += 1,
                            Op::Unsew { .. } => probes.unsew_ok += 1,
                            _ => {}
                        }
                        probes.merges += u64::from(sp.merges);
                        probes.splits += u64::from(sp.splits);
                        probes.one_sided += u64::from(sp.one_sided);
                        probes.from_none += u64::from(sp.from_none);
                        probes.hedged += u64::from(sp.hedged_calls);
                        probes.multi += u64::from(sp.adoptions_multi);
                        probes.migrated_far += u64::from(sp.id_migrated_far);
                        if let Some(a) = sp.arm {
                            probes.arms[a as usize] += 1;
                        }
                        for f in fs {
                            findings.push(StepFinding { step: si, finding: f });
                        }
                        for f in check_orientation_refusal(prop, &pre, &tx.ops[0]) {
                            findings.push(StepFinding { step: si, finding: f });
                        }
                    }
                }
                TxValue::Err(k, e) => {
                    probes.tx_err += 1;
                    if o.rejections > 0 {
                        probes.rejections_made_call_fail += 1;
                    }
                    if checks.sew_effect && tx.ops.len() == 1 {
                        for f in check_unsew_must_succeed(&pre, &tx.ops[0], e) {
                            findings.push(StepFinding { step: si, finding: f });
                        }
                    }
                    if checks.error_unchanged && post != pre {
                        findings.push(StepFinding { step: si, finding: Finding { prop: "C06", class: "state-changed-by-failed-call".into(), msg: format!("step {si} {tx:?} returned Err (op {k}: {e}) but the map changed: {}", post.diff(&pre)) } });
                    } else if let Some(pd) = pre_derived {
                        let qd = map.derived();
                        if qd != pd {
                            findings.push(StepFinding { step: si, finding: Finding { prop: "C06", class: "counters-changed-by-failed-call".into(), msg: format!("step {si} {tx:?} returned Err (op {k}: {e}) but the map's own counters (darts, removed darts, vertices) changed from {pd:?} to {qd:?}") } });
                        }
                    }
                }
                TxValue::Abandoned => {
                    probes.tx_err += 1;
                }
            }
        }
        if checks.ids_orbits && (h.c03_every > 0 && (si as u32 + 1) % h.c03_every == 0) && post.wf().is_ok() {
            c03_check(&map, &post, &mut probes, &mut findings, si);
        }
        outs.push(out);
        pre = post;
        si += 1;
        if (stop_at_first && !findings.is_empty()) || tainted {
            break;
        }
    }
    if checks.alloc {
        removed_darts_invisible(&map, &pre, executed.len(), &mut findings);
    }
    if checks.ids_orbits && pre.wf().is_ok() && !(stop_at_first && !findings.is_empty()) {
        c03_check(&map, &pre, &mut probes, &mut findings, executed.len());
    }
    HistOut { steps: executed, findings, probes, outs, fin: pre }
}

pub fn wf_class(e: &str) -> String {
    let key = e.split(':').next().unwrap_or("wf");
    format!("wf-{}", key.replace(' ', "-"))
}

fn alloc_checks(map: &AnyMap, pre: &State, id: u32, n: u32, may_reuse: bool, si: usize, findings: &mut Vec<StepFinding>) {
    let mut bad = |class: &str, msg: String| findings.push(StepFinding { step: si, finding: Finding { prop: "C18", class: class.into(), msg } });
    let n_after = map.n_darts();
    let kinds = pre.kinds;
    for k in 0..n {
        let d = id + k;
        if d == 0 {
            bad("alloc-returned-null", format!("allocation returned the null dart"));
            continue;
        }
        if (d as usize) >= n_after {
            bad("alloc-id-out-of-range", format!("allocation returned {d} >= n_darts() = {n_after}"));
            continue;
        }
        let reused = (d as usize) < pre.n();
        if reused && !may_reuse {
            bad("append-returned-existing-id", format!("append-style allocation returned existing id {d}"));
        }
        if reused && !pre.unused[d as usize] {
            bad("alloc-returned-dart-in-use", format!("allocation returned dart {d}, which is in use"));
        }
        if map.is_unused(d) {
            bad("alloc-dart-still-flagged-removed", format!("allocated dart {d} is still flagged as removed"));
        }
        for i in 0..=pre.dim {
            if map.beta(i, d) != 0 {
                bad("alloc-dart-not-free", format!("newly obtained dart {d} has beta{i} = {}", map.beta(i, d)));
            }
        }
        if map.read_vertex(d).is_some() {
            bad(if reused { "reused-slot-keeps-coordinates" } else { "fresh-dart-has-coordinates" }, format!("newly obtained dart {d} (reused slot: {reused}) already has coordinates {:?}", map.read_vertex(d).map(f3)));
        }
        for kk in crate::attrs::mask_kinds(kinds) {
            if let Some(v) = map.read_attr(kk, d) {
                bad(if reused { "reused-slot-keeps-attribute" } else { "fresh-dart-has-attribute" }, format!("newly obtained dart {d} (reused slot: {reused}) already has a {} value {v}", crate::attrs::KIND_NAMES[kk]));
            }
        }
    }
    // counters as documented
    let expect_n = if may_reuse && (id as usize) < pre.n() { pre.n() } else { pre.n() + n as usize };
    if n_after != expect_n {
        bad("dart-count-wrong", format!("n_darts() = {n_after} after allocation, expected {expect_n}"));
    }
    let unused_before = pre.unused.iter().filter(|&&u| u).count();
    let expect_unused = if may_reuse && (id as usize) < pre.n() { unused_before.saturating_sub(1) } else { unused_before };
    if map.n_unused() != expect_unused {
        bad("removed-count-wrong", format!("n_unused_darts() = {} after allocation, expected {expect_unused}", map.n_unused()));
    }
    // every id below the dart count readable and writable in every storage: write-then-read
    // inside a transaction that is aborted, so the check itself changes nothing
    let last = (n_after - 1) as u32;
    for d in [id, last] {
        let r: Result<(), String> = fast_stm::atomically_with_err(|t| {
            map.write_vertex_tx(t, d, [1, 2, 3])?;
            let back = map.read_vertex_tx(t, d)?;
            let mut msg = String::new();
            if back.is_none() {
                msg = format!("coordinates written at id {d} cannot be read back");
            }
            for kk in crate::attrs::mask_kinds(kinds) {
                let v = if crate::attrs::kind_is_anchor(kk) { (2u64 << 32) | 1 } else { 5 };
                map.write_attr_tx(t, kk, d, v)?;
                if map.read_attr_tx(t, kk, d)? != Some(v) {
                    msg = format!("{} value written at id {d} cannot be read back", crate::attrs::KIND_NAMES[kk]);
                }
            }
            fast_stm::abort(msg)
        });
        if let Err(m) = r {
            if !m.is_empty() {
                bad("storage-not-addressable", m);
            }
        }
    }
}

/// C18: removed darts are reported by no cell iterator and by no orbit of a remaining dart.
fn removed_darts_invisible(map: &AnyMap, s: &State, step: usize, findings: &mut Vec<StepFinding>) {
    let removed: Vec<u32> = (1..s.n() as u32).filter(|&d| s.unused[d as usize]).collect();
    if removed.is_empty() {
        return;
    }
    let mut bad = |class: &str, msg: String| findings.push(StepFinding { step, finding: Finding { prop: "C18", class: class.into(), msg } });
    let okinds: &[u8] = if s.dim == 2 { &[0, 1, 2] } else { &[0, 1, 2, 3] };
    for &o in okinds {
        let it = map.iter_cells(o);
        if let Some(d) = it.iter().find(|d| removed.contains(d)) {
            bad("removed-dart-reported-by-iterator", format!("removed dart {d} is yielded by the iterator over {} cells", ["vertex", "edge", "face", "volume"][o as usize]));
        }
    }
    let pols: &[Policy] = if s.dim == 2 { &[Policy::Vertex, Policy::Edge, Policy::Face] } else { &[Policy::Vertex, Policy::Edge, Policy::Face, Policy::Volume] };
    for d in 1..s.n() as u32 {
        if s.unused[d as usize] {
            continue;
        }
        for &p in pols {
            let orb = map.orbit(p, d);
            if let Some(x) = orb.iter().find(|x| removed.contains(x)) {
                bad("removed-dart-in-orbit", format!("removed dart {x} is in orbit({p:?}, {d}) = {orb:?}"));
                return;
            }
        }
    }
}

/// C18: `remove_free_dart` of a linked or already removed dart must be refused (it panics).
/// Sacrificial: runs in its own execution on a map rebuilt from `s`. Returns true when refused.
pub fn removal_is_refused(s: Arc<State>, order: KindOrder, d: u32) -> bool {
    let r = execute_serial(move || {
        let (mut map, _) = build_map(&s, &order);
        map.remove_free_dart(d);
    });
    !matches!(r.outcome, Outcome::Done(()))
}

/// Run the history in its own execution.
pub enum HistResult {
    Done(HistOut),
    Panic(String),
    Blocked,
}

pub fn run_history(h: Arc<History>, checks: Checks, stop_at_first: bool) -> HistResult {
    let r = execute_serial(move || run_history_here(&h, checks, stop_at_first));
    match r.outcome {
        Outcome::Done(o) => HistResult::Done(o),
        Outcome::Panic(m) => HistResult::Panic(m),
        Outcome::Deadlock(_) | Outcome::StepBound | Outcome::Livelock => HistResult::Blocked,
    }
}
