//! Shared check infrastructure: seeded parallel run loop, counters, violations, known findings,
//! evidence files, fresh-process replay confirmation.

use std::collections::{BTreeMap, BTreeSet};
use std::path::{Path, PathBuf};
use std::sync::Mutex;
use std::sync::atomic::{AtomicBool, AtomicU64, Ordering};
use std::time::Instant;

use serde::{Deserialize, Serialize};
use serde_json::{Value, json};

use crate::prng::derive;

#[derive(Clone, Copy, PartialEq, Eq, Debug)]
pub enum Tier {
    Quick,
    Thorough,
}

impl Tier {
    pub fn name(self) -> &'static str {
        match self {
            Tier::Quick => "quick",
            Tier::Thorough => "thorough",
        }
    }
}

pub fn verif_root() -> PathBuf {
    std::env::var("VERIF_ROOT").map(PathBuf::from).unwrap_or_else(|_| PathBuf::from("/verif"))
}

pub fn base_seed() -> u64 {
    std::env::var("VERIF_SEED").ok().and_then(|s| s.parse().ok()).unwrap_or(1)
}

pub fn n_workers() -> usize {
    std::env::var("VERIF_WORKERS").ok().and_then(|s| s.parse().ok()).unwrap_or_else(|| {
        std::thread::available_parallelism().map(|n| n.get()).unwrap_or(4).min(16)
    })
}

/// Scale factor for run counts (testing the machinery itself with smaller batches).
pub fn scale() -> f64 {
    std::env::var("VERIF_SCALE").ok().and_then(|s| s.parse().ok()).unwrap_or(1.0)
}

pub fn scaled(n: u64) -> u64 {
    ((n as f64) * scale()).max(1.0) as u64
}

#[derive(Default, Clone)]
pub struct Counters {
    pub c: BTreeMap<String, u64>,
    pub distinct: BTreeMap<String, BTreeSet<u64>>,
    pub samples: Vec<Value>,
    pub max_samples: usize,
    /// a few written-out rare events per key (panic messages, discarded scenarios, ...)
    pub notes: BTreeMap<String, Vec<String>>,
}

impl Counters {
    pub fn new() -> Self {
        Counters { max_samples: 4, ..Default::default() }
    }
    pub fn inc(&mut self, k: &str) {
        self.add(k, 1);
    }
    pub fn add(&mut self, k: &str, n: u64) {
        *self.c.entry(k.to_string()).or_insert(0) += n;
    }
    pub fn max(&mut self, k: &str, n: u64) {
        let e = self.c.entry(k.to_string()).or_insert(0);
        if n > *e {
            *e = n;
        }
    }
    pub fn get(&self, k: &str) -> u64 {
        self.c.get(k).copied().unwrap_or(0)
    }
    pub fn seen(&mut self, k: &str, h: u64) {
        let set = self.distinct.entry(k.to_string()).or_default();
        // bounded memory: keep at most 2M hashes per measure
        if set.len() < 2_000_000 {
            set.insert(h);
        }
    }
    pub fn n_distinct(&self, k: &str) -> u64 {
        self.distinct.get(k).map(|s| s.len() as u64).unwrap_or(0)
    }
    pub fn sample(&mut self, v: impl FnOnce() -> Value) {
        if self.samples.len() < self.max_samples {
            self.samples.push(v());
        }
    }
    pub fn note(&mut self, k: &str, msg: impl FnOnce() -> String) {
        let v = self.notes.entry(k.to_string()).or_default();
        if v.len() < 3 {
            v.push(msg());
        }
    }
    pub fn merge(&mut self, o: Counters) {
        for (k, v) in o.notes {
            let e = self.notes.entry(k).or_default();
            for m in v {
                if e.len() < 3 {
                    e.push(m);
                }
            }
        }
        for (k, v) in o.c {
            if k.starts_with("max_") {
                self.max(&k, v);
            } else {
                self.add(&k, v);
            }
        }
        for (k, s) in o.distinct {
            let e = self.distinct.entry(k).or_default();
            for h in s {
                if e.len() < 2_000_000 {
                    e.insert(h);
                }
            }
        }
        for s in o.samples {
            if self.samples.len() < self.max_samples.max(4) {
                self.samples.push(s);
            }
        }
    }
    pub fn to_json(&self) -> Value {
        let mut m = serde_json::Map::new();
        for (k, v) in &self.c {
            m.insert(k.clone(), json!(v));
        }
        for (k, s) in &self.distinct {
            m.insert(format!("distinct_{k}"), json!(s.len()));
        }
        Value::Object(m)
    }
}

#[derive(Clone, Debug, Serialize, Deserialize)]
pub struct Violation {
    pub property: String,
    /// violation class, stable across minimisation (e.g. "not-serialisable", "panic")
    pub class: String,
    pub message: String,
    pub seed: u64,
    pub run: u64,
    /// property-specific replay payload (scenario, faults, schedule)
    pub payload: Value,
    /// id of the known finding this matches, if any
    #[serde(default)]
    pub known: Option<String>,
}

/// Run `n_runs` seeded runs over the worker threads. Run i uses seed derive(base, prop, i) and
/// is assigned to worker i mod W, so results do not depend on timing. Each run may report
/// violations; at most `max_violations` (lowest run indexes first) are kept.
/// Wall-clock budget of one batch in seconds (0 = none). Set by `main` for the thorough tier
/// (default 1800 s, `VERIF_BUDGET_S` overrides); the quick tier is bounded by its run count only.
pub static BUDGET_S: AtomicU64 = AtomicU64::new(0);

pub fn parallel_runs<F>(prop: &str, n_runs: u64, f: F) -> (Counters, Vec<Violation>, f64)
where
    F: Fn(u64, u64, &mut Counters) -> Vec<Violation> + Sync,
{
    let w = n_workers().max(1);
    let base = base_seed();
    let start = Instant::now();
    let all = Mutex::new((Counters::new(), Vec::<Violation>::new()));
    let harness_error = AtomicBool::new(false);
    let done = AtomicU64::new(0);
    let max_keep = 64usize;
    std::thread::scope(|sc| {
        for wi in 0..w {
            let f = &f;
            let all = &all;
            let harness_error = &harness_error;
            let done = &done;
            let prop = prop.to_string();
            sc.spawn(move || {
                let mut local = Counters::new();
                let mut viols = vec![];
                let mut i = wi as u64;
                let budget = BUDGET_S.load(Ordering::Relaxed);
                while i < n_runs {
                    if budget > 0 && start.elapsed().as_secs() >= budget {
                        local.inc("workers_stopped_by_wall_clock_budget");
                        local.add("runs_not_started_within_budget", (n_runs - i).div_ceil(w as u64));
                        break;
                    }
                    let seed = derive(base, &prop, i);
                    let r = std::panic::catch_unwind(std::panic::AssertUnwindSafe(|| f(i, seed, &mut local)));
                    match r {
                        Ok(v) => {
                            for x in v {
                                if viols.len() < max_keep {
                                    viols.push(x);
                                }
                            }
                        }
                        Err(p) => {
                            let msg = p.downcast_ref::<String>().cloned().or_else(|| p.downcast_ref::<&str>().map(|s| s.to_string())).unwrap_or_default();
                            eprintln!("HARNESS-ERROR property={prop} run={i} seed={seed}: harness panicked: {msg} {:?}", crate::exec::last_panic());
                            harness_error.store(true, Ordering::SeqCst);
                            break;
                        }
                    }
                    done.fetch_add(1, Ordering::Relaxed);
                    i += w as u64;
                }
                let mut g = all.lock().unwrap();
                g.0.merge(local);
                g.1.extend(viols);
            });
        }
    });
    if harness_error.load(Ordering::SeqCst) {
        std::process::exit(2);
    }
    let (c, mut v) = all.into_inner().unwrap();
    v.sort_by_key(|x| x.run);
    (c, v, start.elapsed().as_secs_f64())
}

/// Determinism self-test support: run `n_runs` runs exactly as a check would and print, per run
/// index, a 64-bit digest of everything the run produced (all counters, the hashes of every
/// schedule / interleaving signature / state it recorded, violation classes and messages).
/// Two processes, at any worker counts, must print identical lines.
pub fn digest_runs<F>(prop: &str, n_runs: u64, f: F)
where
    F: Fn(u64, u64, &mut Counters) -> Vec<Violation> + Sync,
{
    let w = n_workers().max(1);
    let base = base_seed();
    let lines = Mutex::new(Vec::<(u64, u64)>::new());
    std::thread::scope(|sc| {
        for wi in 0..w {
            let f = &f;
            let lines = &lines;
            let prop = prop.to_string();
            sc.spawn(move || {
                let mut local = vec![];
                let mut i = wi as u64;
                while i < n_runs {
                    let seed = derive(base, &prop, i);
                    let mut c = Counters::new();
                    let v = f(i, seed, &mut c);
                    let mut h = crate::prng::mix64(seed);
                    let mut eat = |s: &str| {
                        for b in s.bytes() {
                            h = crate::prng::mix64(h ^ u64::from(b));
                        }
                    };
                    eat(&c.to_json().to_string());
                    for (k, set) in &c.distinct {
                        eat(k);
                        for x in set {
                            eat(&x.to_string());
                        }
                    }
                    for x in &v {
                        eat(&x.class);
                        eat(&x.message);
                    }
                    for s in &c.samples {
                        eat(&s.to_string());
                    }
                    local.push((i, h));
                    i += w as u64;
                }
                lines.lock().unwrap().extend(local);
            });
        }
    });
    let mut l = lines.into_inner().unwrap();
    l.sort_unstable();
    for (i, h) in l {
        println!("{prop} {i} {h:016x}");
    }
}

// ---------------------------------------------------------------------------- known findings

#[derive(Clone, Debug, Serialize, Deserialize)]
pub struct KnownFinding {
    pub property: String,
    pub id: String,
    /// "known" or "fixed"
    pub status: String,
    #[serde(default)]
    pub commit: Option<String>,
    pub what: String,
    /// name of the classifier compiled into the harness
    pub classifier: String,
    /// stored replay (relative to /verif), re-run on every check
    #[serde(default)]
    pub replay: Option<String>,
}

pub fn load_known() -> Vec<KnownFinding> {
    let p = verif_root().join("known_findings.json");
    match std::fs::read_to_string(&p) {
        Ok(s) => {
            let v: Value = serde_json::from_str(&s).unwrap_or_else(|e| {
                eprintln!("HARNESS-ERROR cannot parse {}: {e}", p.display());
                std::process::exit(2)
            });
            serde_json::from_value(v["findings"].clone()).unwrap_or_default()
        }
        Err(_) => vec![],
    }
}

/// Known (not fixed) finding ids of a property, by classifier name.
pub fn known_classifiers(prop: &str) -> BTreeMap<String, KnownFinding> {
    load_known().into_iter().filter(|k| k.property == prop && k.status == "known").map(|k| (k.classifier.clone(), k)).collect()
}

/// Re-run the stored replay of every listed finding of `prop`. A `known` entry that still
/// reproduces yields a KNOWN-FINDING hit; a `fixed` entry that reproduces again is a regression
/// and is returned as a violation. Entries that no longer reproduce only print a note.
pub fn run_stored_replays(
    prop: &str,
    replay: &dyn Fn(&Violation) -> bool,
    hits: &mut BTreeMap<String, (KnownFinding, u64)>,
) -> Vec<Violation> {
    let mut out = vec![];
    for k in load_known().into_iter().filter(|k| k.property == prop) {
        let Some(rel) = &k.replay else { continue };
        let path = verif_root().join(rel);
        let Ok(text) = std::fs::read_to_string(&path) else {
            eprintln!("HARNESS-ERROR stored replay {} of finding {} is missing", path.display(), k.id);
            std::process::exit(2)
        };
        let Ok(v) = serde_json::from_str::<Violation>(&text) else {
            eprintln!("HARNESS-ERROR stored replay {} does not parse", path.display());
            std::process::exit(2)
        };
        let reproduces = replay(&v);
        match (k.status.as_str(), reproduces) {
            ("known", true) => {
                hits.entry(k.classifier.clone()).or_insert((k.clone(), 0)).1 += 1;
            }
            ("known", false) => println!("note: known finding {} no longer reproduces from its stored replay {}", k.id, rel),
            ("fixed", true) => {
                let mut v2 = v.clone();
                v2.message = format!("regression of fixed finding {} ({}): {}", k.id, k.commit.clone().unwrap_or_default(), v.message);
                out.push(v2);
            }
            _ => {}
        }
    }
    out
}

// ---------------------------------------------------------------------------- reporting

pub struct Report {
    pub property: String,
    pub tier: Tier,
    pub level: &'static str,
    pub counters: Counters,
    pub wall_s: f64,
    pub evaluations: u64,
    pub distinct_nontrivial: u64,
    pub rule: String,
    pub assumptions: Vec<String>,
    pub extra: Value,
    pub exhaustive: bool,
}

pub fn components_table() -> Value {
    json!({
        "real": ["honeycomb-core (path /repo/honeycomb-core, --cfg honeycomb_verif)", "honeycomb-kernels (path /repo/honeycomb-kernels)"],
        "instrumented": ["fast-stm 0.5.0 (vendor/fast-stm-sim: parking_lot/std primitives replaced by scheduler-owned ones, allocation-order TVar ordering, commit stamps, forced validation failure)"],
        "scheduler": ["shuttle 0.9.3 runtime with the seeded SimScheduler of sim/src/sched.rs"],
        "stub": ["rayon dispatch of benches/examples re-expressed over simulated threads (static partitions)"],
        "not_run": ["honeycomb-render", "honeycomb facade", "file readers/serializers (except engine hcio for C10)"]
    })
}

pub fn write_evidence(rep: &Report, violations: usize) {
    let dir = verif_root().join("evidence");
    let _ = std::fs::create_dir_all(&dir);
    let mut cov = serde_json::Map::new();
    cov.insert("evaluations".into(), json!(rep.evaluations.max(1)));
    cov.insert("distinct_nontrivial".into(), json!(rep.distinct_nontrivial));
    let rule = if rep.distinct_nontrivial >= 2_000_000 {
        format!("{} [distinct cases are counted up to a cap of 2 000 000 per worker-merged measure to bound memory: the true number is at least the one reported]", rep.rule)
    } else {
        rep.rule.clone()
    };
    cov.insert("rule".into(), json!(rule));
    let samples = if rep.counters.samples.is_empty() { vec![json!("no sample recorded")] } else { rep.counters.samples.clone() };
    cov.insert("samples".into(), Value::Array(samples));
    if rep.exhaustive {
        cov.insert("exhaustive".into(), json!(true));
    }
    cov.insert("counters".into(), rep.counters.to_json());
    if !rep.counters.notes.is_empty() {
        cov.insert("notes".into(), json!(rep.counters.notes));
    }
    let per_hour = if rep.wall_s > 0.0 { (rep.evaluations as f64 / rep.wall_s * 3600.0) as u64 } else { 0 };
    cov.insert("runs_per_hour".into(), json!(per_hour));
    cov.insert("workers".into(), json!(n_workers()));
    cov.insert("components".into(), components_table());
    if let Value::Object(m) = &rep.extra {
        for (k, v) in m {
            cov.insert(k.clone(), v.clone());
        }
    }
    let ev = json!({
        "property_id": rep.property,
        "tier": rep.tier.name(),
        "seed": base_seed(),
        "level": rep.level,
        "coverage": Value::Object(cov),
        "assumptions": rep.assumptions,
        "wall_s": (rep.wall_s * 1000.0).round() / 1000.0,
        "violations": violations,
    });
    let path = dir.join(format!("{}.json", rep.property));
    std::fs::write(&path, serde_json::to_string_pretty(&ev).unwrap() + "\n").unwrap_or_else(|e| {
        eprintln!("HARNESS-ERROR cannot write {}: {e}", path.display());
        std::process::exit(2)
    });
}

/// Write a replay file and confirm it in a fresh process. Returns the path when the fresh
/// process reproduced the same violation class.
pub fn persist_and_confirm(v: &Violation) -> Result<PathBuf, String> {
    let dir = verif_root().join("replays");
    let _ = std::fs::create_dir_all(&dir);
    let path = dir.join(format!("{}-{}-{}.json", v.property, v.class, v.seed));
    std::fs::write(&path, serde_json::to_string_pretty(v).unwrap() + "\n").map_err(|e| e.to_string())?;
    confirm_replay(&path, &v.class).map(|_| path)
}

pub fn confirm_replay(path: &Path, class: &str) -> Result<(), String> {
    let exe = std::env::current_exe().map_err(|e| e.to_string())?;
    let out = std::process::Command::new(exe).arg("replay").arg(path).output().map_err(|e| e.to_string())?;
    let stdout = String::from_utf8_lossy(&out.stdout);
    if out.status.code() == Some(1) && stdout.contains(&format!("class={class}")) {
        Ok(())
    } else {
        Err(format!("fresh-process replay of {} did not reproduce class {class}: exit {:?}, output: {}", path.display(), out.status.code(), stdout.trim()))
    }
}

/// Final verdict of a check. Prints KNOWN-FINDING / VIOLATION lines and returns the exit code.
pub fn conclude(rep: &Report, violations: Vec<Violation>, known_hits: &BTreeMap<String, (KnownFinding, u64)>) -> i32 {
    let mut exit = 0;
    for (_cls, (k, n)) in known_hits {
        if *n > 0 {
            println!("KNOWN-FINDING: property={} {} [{} occurrence(s) in this run; id {}]", k.property, k.what, n, k.id);
        }
    }
    let mut printed = BTreeSet::new();
    let mut n_viol = 0;
    for v in &violations {
        if !printed.insert(v.class.clone()) {
            continue;
        }
        match persist_and_confirm(v) {
            Ok(path) => {
                println!("VIOLATION property={} replay={}", v.property, path.display());
                println!("  class={} seed={} run={}: {}", v.class, v.seed, v.run, v.message);
                n_viol += 1;
                exit = 1;
            }
            Err(e) => {
                eprintln!("HARNESS-ERROR property={} candidate violation did not replay: {e}", v.property);
                write_evidence(rep, 0);
                return 2;
            }
        }
    }
    write_evidence(rep, n_viol);
    println!(
        "{} {} {}: {} evaluations, {} distinct non-trivial, {} violation(s), {:.1}s",
        if exit == 0 { "OK" } else { "FAIL" },
        rep.property,
        rep.tier.name(),
        rep.evaluations,
        rep.distinct_nontrivial,
        n_viol,
        rep.wall_s
    );
    exit
}
