//! Statement-level oracles evaluated on (pre-state, call, result, post-state) of one step of a
//! single-client history. Each returns findings tagged with the property they belong to and a
//! stable class name (used by known-finding classifiers and by minimisation).

use crate::attrs::*;
use crate::ops::Op;
use crate::state::*;

#[derive(Clone, Debug)]
pub struct Finding {
    pub prop: &'static str,
    pub class: String,
    pub msg: String,
}

fn fnd(prop: &'static str, class: &str, msg: String) -> Finding {
    Finding { prop, class: class.to_string(), msg }
}

#[derive(Default, Clone, Debug)]
pub struct SewProbe {
    pub merges: u32,
    pub splits: u32,
    pub unchanged_cells: u32,
    pub hedged_calls: u32,
    pub adoptions_multi: u32,
    pub one_sided: u32,
    pub from_none: u32,
    pub id_migrated_far: u32,
    pub arm: Option<u8>,
    pub closed_umbrella: bool,
}

/// Values of one attribute kind (or of the coordinates when `kind` is None) at slot `id`.
fn val(s: &State, kind: Option<usize>, id: u32) -> Option<[u64; 3]> {
    match kind {
        None => s.vtx[id as usize],
        Some(k) => s.attrs[k][id as usize].map(|v| [v, 0, 0]),
    }
}

fn law_merge3(dim: u8, kind: Option<usize>, a: Option<[u64; 3]>, b: Option<[u64; 3]>) -> Result<[u64; 3], ()> {
    match kind {
        None => {
            // coordinates: average; one-sided merge is the identity; no merge_from_none
            match (a, b) {
                (Some(a), Some(b)) => {
                    let (fa, fb) = (f3(a), f3(b));
                    let two = 2.0f64;
                    let z = if dim == 3 { (fa[2] + fb[2]) / two } else { 0.0 };
                    Ok(b3([(fa[0] + fb[0]) / two, (fa[1] + fb[1]) / two, z]))
                }
                (Some(a), None) | (None, Some(a)) => Ok(a),
                (None, None) => Err(()),
            }
        }
        Some(k) => match (a, b) {
            (Some(a), Some(b)) => law_merge(k, a[0], b[0]).map(|v| [v, 0, 0]),
            (Some(a), None) | (None, Some(a)) => law_merge_incomplete(k, a[0]).map(|v| [v, 0, 0]),
            (None, None) => law_merge_from_none(k).map(|v| [v, 0, 0]),
        },
    }
}

fn law_split3(kind: Option<usize>, a: Option<[u64; 3]>) -> Result<([u64; 3], [u64; 3]), ()> {
    match kind {
        None => match a {
            Some(a) => Ok((a, a)),
            None => Err(()),
        },
        Some(k) => match a {
            Some(a) => law_split(k, a[0]).map(|(x, y)| ([x, 0, 0], [y, 0, 0])),
            None => law_split_from_none(k).map(|(x, y)| ([x, 0, 0], [y, 0, 0])),
        },
    }
}

fn kind_name(kind: Option<usize>) -> &'static str {
    match kind {
        None => "coordinates",
        Some(k) => KIND_NAMES[k],
    }
}

fn fmt_val(kind: Option<usize>, v: Option<[u64; 3]>) -> String {
    match (kind, v) {
        (_, None) => "None".into(),
        (None, Some(b)) => format!("{:?}", f3(b)),
        (Some(_), Some(b)) => format!("{}", b[0]),
    }
}

/// Is the face of `d` a closed simple polygon: its darts lie in pairwise distinct vertices and
/// pairwise distinct edges (no face folded onto itself)?
pub fn face_is_simple(s: &State, d: u32) -> bool {
    let w = s.face_walk(d, true);
    if !w.closed || w.fwd.len() < 3 {
        return false;
    }
    let (pv, pe) = (s.partition(0), s.partition(1));
    let mut vs: Vec<u32> = w.fwd.iter().map(|&x| pv[x as usize]).collect();
    let mut es: Vec<u32> = w.fwd.iter().map(|&x| pe[x as usize]).collect();
    vs.sort_unstable();
    es.sort_unstable();
    vs.windows(2).all(|p| p[0] != p[1]) && es.windows(2).all(|p| p[0] != p[1])
}

pub fn all_faces_closed(s: &State) -> bool {
    (1..s.n() as u32).all(|d| s.unused[d as usize] || s.is_free(d) || s.face_walk(d, true).closed)
}

/// Every vertex of an in-use, non-isolated dart has coordinates.
pub fn fully_embedded(s: &State) -> bool {
    let p = s.partition(0);
    (1..s.n() as u32).all(|d| s.unused[d as usize] || s.is_free(d) || s.vtx[p[d as usize] as usize].is_some())
}

/// Hedge of C05: does some cell take part in more than one merge (split) of the call? The
/// merges a sew demands, by definition: 2-sew: the two end vertices and the edge; 3-sew: per
/// pair of mirrored darts the edge and the vertex between them, and the face. An unsew demands
/// the mirror-image splits.
pub fn cell_in_several_merges(pre: &State, is_sew: bool, i: u8, l: u32, r: u32) -> bool {
    let (pv, pe) = (pre.partition(0), pre.partition(1));
    let mut vp: Vec<(u32, u32)> = vec![];
    let mut ep: Vec<(u32, u32)> = vec![];
    if is_sew {
        if i == 2 {
            let (b1l, b1r) = (pre.b(1, l), pre.b(1, r));
            if b1r != 0 {
                vp.push((pv[l as usize], pv[b1r as usize]));
            }
            if b1l != 0 {
                vp.push((pv[b1l as usize], pv[r as usize]));
            }
            ep.push((pe[l as usize], pe[r as usize]));
        } else {
            let (fl, fr) = (pre.face_walk(l, true).fwd, pre.face_walk(r, false).fwd);
            for (&a, &b) in fl.iter().zip(fr.iter()) {
                ep.push((pe[a as usize], pe[b as usize]));
                vp.push((pv[pre.b(1, a) as usize], pv[b as usize]));
            }
        }
        for pairs in [&vp, &ep] {
            let mut count: std::collections::BTreeMap<u32, u32> = Default::default();
            for &(a, b) in pairs.iter() {
                if a != b {
                    *count.entry(a).or_default() += 1;
                    *count.entry(b).or_default() += 1;
                }
            }
            if count.values().any(|&c| c > 1) {
                return true;
            }
        }
        false
    } else {
        // old cells that are asked to split: each may be named once
        let mut vs: Vec<u32> = vec![];
        let mut es: Vec<u32> = vec![];
        if i == 2 {
            if pre.b(1, r) != 0 {
                vs.push(pv[l as usize]);
            }
            if pre.b(1, l) != 0 {
                vs.push(pv[r as usize]);
            }
        } else {
            for &a in &pre.face_walk(l, true).fwd {
                vs.push(pv[a as usize]);
                es.push(pe[a as usize]);
            }
        }
        vs.sort_unstable();
        es.sort_unstable();
        vs.windows(2).any(|w| w[0] == w[1]) || es.windows(2).any(|w| w[0] == w[1])
    }
}

/// C05: on a fully embedded mesh with closed faces an unsew of a sewn dart must succeed.
pub fn check_unsew_must_succeed(pre: &State, op: &Op, err: &str) -> Vec<Finding> {
    let Op::Unsew { i, l } = op else { return vec![] };
    if pre.dim != 3 || pre.b(*i, *l) == 0 || pre.wf().is_err() {
        return vec![];
    }
    if !(all_faces_closed(pre) && fully_embedded(pre)) {
        return vec![];
    }
    if !glued_faces_closed_and_mirrored(pre) {
        return vec![];
    }
    if *i >= 2 && cell_in_several_merges(pre, false, *i, *l, pre.b(*i, *l)) {
        return vec![];
    }
    // a user attribute law rejecting (injected or natural) legitimately fails the call; the
    // statement speaks about meshes that are fully embedded, i.e. about coordinates
    if ["injected failure", "harness attribute", "\"Wv\"", "\"We\"", "\"Wf\"", "\"Tv\"", "\"Te\"", "\"Tf\"", "conflicting tags"].iter().any(|p| err.contains(p)) {
        // ... unless no law can have rejected: a 3-unsew splits exactly one face cell, whose value
        // sits under the smaller of the two face identifiers; when it is there and the law splits
        // it, a "split" failure naming a face-bound kind is the implementation's, not the law's
        if *i == 3 && !err.contains("injected failure") && err.contains("split") {
            for (k, name) in [(K_WF, "\"Wf\""), (K_TF, "\"Tf\"")] {
                if err.contains(name) && mask_has(pre.kinds, k) {
                    let pf = pre.partition(2);
                    let (fl, fr) = (pf[*l as usize], pf[pre.b(3, *l) as usize]);
                    // (the model's face of a glued pair is the union; its identifier the smaller one)
                    let id = fl.min(fr);
                    if let Some(v) = pre.attrs[k][id as usize] {
                        if law_split(k, v).is_ok() {
                            return vec![fnd("C05", "unsew-failed-although-no-law-rejects", format!("{op:?} on a fully embedded mesh with closed faces returned {err}, but the glued face carries {v} under its identifier {id} and the law splits that value"))];
                        }
                    }
                }
            }
        }
        return vec![];
    }
    vec![fnd("C05", "unsew-failed-on-embedded-mesh", format!("{op:?} on a fully embedded mesh with closed faces, beta{i}({l}) = {} != null, returned {err}", pre.b(*i, *l)))]
}

/// Are the faces (beta1 paths) of the given darts closed cycles?
pub fn faces_closed(s: &State, darts: &[u32]) -> bool {
    darts.iter().all(|&d| d != 0 && s.face_walk(d, true).closed)
}

/// C04 / C05: a successful sew or unsew moves embedded data with the cells.
/// `pre`/`post` are full snapshots; the call succeeded. Returns findings and fills the probe.
pub fn check_sew_effect(
    prop: &'static str,
    pre: &State,
    post: &State,
    op: &Op,
    probe: &mut SewProbe,
    real_parts: Option<(&[Vec<u32>], &[Vec<u32>])>,
) -> Vec<Finding> {
    let mut out = vec![];
    let dim = pre.dim;
    let (is_sew, i, l, r) = match op {
        Op::Sew { i, l, r } => (true, *i, *l, *r),
        Op::Unsew { i, l } => (false, *i, *l, pre.b(*i, *l)),
        _ => return out,
    };
    // ---- 1. topology: exactly the effect of the corresponding link
    let mut expected = pre.clone();
    let lr = if is_sew { expected.link(i, l, r) } else { expected.unlink(i, l) };
    if let Err(e) = lr {
        let cls = if is_sew { "sew-succeeded-where-link-refused" } else { "unsew-succeeded-where-unlink-refused" };
        out.push(fnd(if dim == 3 { "C02" } else { prop }, cls, format!("{op:?} returned Ok but the corresponding link is refused on the model: {e}")));
        return out;
    }
    if expected.beta != post.beta || pre.unused != post.unused {
        let mut a = expected.clone();
        a.vtx = post.vtx.clone();
        a.attrs = post.attrs.clone();
        out.push(fnd(prop, "sew-topology-differs-from-link", format!("{op:?}: images after the call differ from those after the corresponding link: {}", post.diff(&a))));
        return out;
    }
    // ---- premises and hedges
    if dim == 3 {
        // C05 speaks about 3-maps with closed faces built from polyhedral cells: for 2- and
        // 3-sews the faces involved must be closed simple polygons before the call (a 1-sew
        // necessarily acts on an open face); unsews are claimed on fully embedded meshes with
        // closed faces, and for coordinates only
        if is_sew && i >= 2 && !(face_is_simple(pre, l) && face_is_simple(pre, r)) {
            probe.hedged_calls += 1;
            return out;
        }
        if !is_sew && !(all_faces_closed(pre) && fully_embedded(pre)) {
            probe.hedged_calls += 1;
            return out;
        }
    }
    let orbits: &[u8] = match (dim, i, is_sew) {
        (2, 1, _) => &[0],
        (2, 2, _) => &[0, 1],
        (3, _, false) => &[0],
        (3, 1, true) => &[0],
        (3, 2, true) => &[0, 1],
        _ => &[0, 1, 2],
    };
    if dim == 3 && i >= 2 && cell_in_several_merges(pre, is_sew, i, l, r) {
        probe.hedged_calls += 1;
        return out;
    }
    if let Some((rp0, rp1)) = real_parts {
        // the statement's cells are the definitional ones, the identifiers are the
        // implementation's: where the two disagree (possible on maps with open or unmirrored
        // faces, which C03 excludes from its claim) nothing is asserted
        for &o in orbits {
            let (m0, m1) = (pre.partition(o), post.partition(o));
            let agree = (1..pre.n()).all(|d| pre.unused[d] || (m0[d] == rp0[o as usize][d] && m1[d] == rp1[o as usize][d]));
            if !agree {
                probe.hedged_calls += 1;
                return out;
            }
        }
    }
    if dim == 2 && i == 2 {
        // hedge: the two end points of the edge are different vertices before and after
        let (p0, p1) = (pre.partition(0), post.partition(0));
        let (b1l, b1r) = (pre.b(1, l), pre.b(1, r));
        let before_same = (b1l != 0 && p0[l as usize] == p0[b1l as usize]) || (b1r != 0 && p0[r as usize] == p0[b1r as usize]);
        let after_same = p1[l as usize] == p1[r as usize];
        if before_same || after_same {
            probe.hedged_calls += 1;
            return out;
        }
        probe.arm = Some(u8::from(b1l != 0) * 2 + u8::from(b1r != 0));
    }
    // ---- 2. data placement, by comparing cell partitions
    let mut claims: Vec<Finding> = vec![];
    let mut multi = false;
    for &o in orbits {
        let (p0, p1) = (pre.partition(o), post.partition(o));
        let kinds: Vec<Option<usize>> = {
            let mut v: Vec<Option<usize>> = mask_kinds(pre.kinds).into_iter().filter(|&k| kind_orbit(k) == o).map(Some).collect();
            if dim == 3 && !is_sew {
                v.clear();
            }
            if o == 0 {
                v.push(None);
            }
            v
        };
        let n = pre.n() as u32;
        if is_sew {
            // every new cell is a union of old cells
            for c in 1..n {
                if p1[c as usize] != c {
                    continue;
                }
                let mut olds: Vec<u32> = (1..n).filter(|&d| p1[d as usize] == c).map(|d| p0[d as usize]).collect();
                olds.sort_unstable();
                olds.dedup();
                match olds.len() {
                    1 => {
                        probe.unchanged_cells += 1;
                        for &k in &kinds {
                            if val(pre, k, c) != val(post, k, c) {
                                claims.push(fnd(prop, "untouched-cell-value-changed", format!(
                                    "{op:?}: {} cell {c} has the same darts before and after, but its {} changed from {} to {}",
                                    ["vertex", "edge", "face"][o as usize], kind_name(k), fmt_val(k, val(pre, k, c)), fmt_val(k, val(post, k, c)))));
                            }
                        }
                    }
                    2 => {
                        probe.merges += 1;
                        let (a, b) = (olds[0], olds[1]);
                        if c + 8 < a.max(b) && c < a.min(b) {
                            probe.id_migrated_far += 1;
                        }
                        for &k in &kinds {
                            let (va, vb) = (val(pre, k, a), val(pre, k, b));
                            if va.is_none() != vb.is_none() {
                                probe.one_sided += 1;
                            }
                            if va.is_none() && vb.is_none() {
                                probe.from_none += 1;
                            }
                            match law_merge3(dim, k, va, vb) {
                                Err(()) => claims.push(fnd(prop, "sew-succeeded-although-law-rejects", format!(
                                    "{op:?}: {} cells {a} and {b} became cell {c}; the {} law rejects merging {} and {} but the call returned Ok",
                                    ["vertex", "edge", "face"][o as usize], kind_name(k), fmt_val(k, va), fmt_val(k, vb)))),
                                Ok(v) => {
                                    if val(post, k, c) != Some(v) {
                                        claims.push(fnd(prop, "merged-cell-wrong-value", format!(
                                            "{op:?}: {} cells {a} ({}) and {b} ({}) became cell {c}: expected {} = {} under id {c}, found {}",
                                            ["vertex", "edge", "face"][o as usize], fmt_val(k, va), fmt_val(k, vb), kind_name(k), fmt_val(k, Some(v)), fmt_val(k, val(post, k, c)))));
                                    }
                                    for x in [a, b] {
                                        if x != c && val(post, k, x).is_some() {
                                            claims.push(fnd(prop, "value-left-under-dead-id", format!(
                                                "{op:?}: id {x} stopped designating a {} (merged into {c}) but still holds {} = {}",
                                                ["vertex", "edge", "face"][o as usize], kind_name(k), fmt_val(k, val(post, k, x)))));
                                        }
                                    }
                                }
                            }
                        }
                    }
                    _ => {
                        multi = true;
                        probe.adoptions_multi += 1;
                    }
                }
            }
        } else {
            // every old cell is a union of new cells
            for c in 1..n {
                if p0[c as usize] != c {
                    continue;
                }
                let mut news: Vec<u32> = (1..n).filter(|&d| p0[d as usize] == c).map(|d| p1[d as usize]).collect();
                news.sort_unstable();
                news.dedup();
                match news.len() {
                    1 => {
                        probe.unchanged_cells += 1;
                        for &k in &kinds {
                            if val(pre, k, c) != val(post, k, c) {
                                claims.push(fnd(prop, "untouched-cell-value-changed", format!(
                                    "{op:?}: {} cell {c} has the same darts before and after, but its {} changed from {} to {}",
                                    ["vertex", "edge", "face"][o as usize], kind_name(k), fmt_val(k, val(pre, k, c)), fmt_val(k, val(post, k, c)))));
                            }
                        }
                    }
                    2 => {
                        probe.splits += 1;
                        let (a, b) = (news[0], news[1]);
                        for &k in &kinds {
                            let v0 = val(pre, k, c);
                            match law_split3(k, v0) {
                                Err(()) => claims.push(fnd(prop, "unsew-succeeded-although-law-rejects", format!(
                                    "{op:?}: {} cell {c} split into {a} and {b}; the {} law rejects splitting {} but the call returned Ok",
                                    ["vertex", "edge", "face"][o as usize], kind_name(k), fmt_val(k, v0)))),
                                Ok((x, y)) => {
                                    let got = (val(post, k, a), val(post, k, b));
                                    if !(got == (Some(x), Some(y)) || got == (Some(y), Some(x))) {
                                        claims.push(fnd(prop, "split-cells-wrong-values", format!(
                                            "{op:?}: {} cell {c} ({}) split into {a} and {b}: expected {{{}, {}}}, found {} and {}",
                                            ["vertex", "edge", "face"][o as usize], fmt_val(k, v0), fmt_val(k, Some(x)), fmt_val(k, Some(y)), fmt_val(k, got.0), fmt_val(k, got.1))));
                                    }
                                    if c != a && c != b && val(post, k, c).is_some() {
                                        claims.push(fnd(prop, "value-left-under-dead-id", format!("{op:?}: id {c} no longer designates a cell but holds a value")));
                                    }
                                }
                            }
                        }
                    }
                    _ => {
                        multi = true;
                        probe.adoptions_multi += 1;
                    }
                }
            }
        }
    }
    if dim == 3 && multi {
        // hedge of C05: a cell takes part in more than one merge or split of the call
        probe.hedged_calls += 1;
        return out;
    }
    out.extend(claims);
    out
}

/// C04: a 2-sew of two fully embedded edges that do not point in opposite directions must be
/// refused. Called when the call returned Ok.
pub fn check_orientation_refusal(prop: &'static str, pre: &State, op: &Op) -> Vec<Finding> {
    let Op::Sew { i: 2, l, r } = op else { return vec![] };
    if pre.dim != 2 {
        return vec![];
    }
    let (l, r) = (*l, *r);
    let (b1l, b1r) = (pre.b(1, l), pre.b(1, r));
    if b1l == 0 || b1r == 0 {
        return vec![];
    }
    let p0 = pre.partition(0);
    let get = |d: u32| pre.vtx[p0[d as usize] as usize].map(f3);
    let (Some(vl), Some(vb1l), Some(vr), Some(vb1r)) = (get(l), get(b1l), get(r), get(b1r)) else { return vec![] };
    let lv = [vb1l[0] - vl[0], vb1l[1] - vl[1]];
    let rv = [vb1r[0] - vr[0], vb1r[1] - vr[1]];
    let dot = lv[0] * rv[0] + lv[1] * rv[1];
    let scale = (lv[0].abs() + lv[1].abs()) * (rv[0].abs() + rv[1].abs());
    if dot > 1e-9 * scale.max(1e-300) {
        return vec![fnd(prop, "same-direction-2-sew-accepted", format!(
            "{op:?} returned Ok although both edges are fully embedded and their direction vectors {lv:?} and {rv:?} have dot product {dot} > 0"))];
    }
    vec![]
}

/// C03: ids, orbits and iterators of the real map against the definition-level model.
/// `real_*` closures query the real map. Returns findings.
pub struct Queries<'a> {
    pub orbit: &'a dyn Fn(Policy, u32) -> Vec<u32>,
    pub orbit_tx: &'a dyn Fn(Policy, u32) -> Vec<u32>,
    pub cell_id: &'a dyn Fn(u8, u32) -> u32,
    pub cell_id_tx: &'a dyn Fn(u8, u32) -> u32,
    pub iter_cells: &'a dyn Fn(u8) -> Vec<u32>,
    /// `i_cell::<I>(d)` collected
    pub i_cell: &'a dyn Fn(u8, u32) -> Vec<u32>,
    /// `orbit(Custom(CUSTOM_LISTS[k]), d)` and its transactional variant
    pub custom: &'a dyn Fn(usize, u32) -> Vec<u32>,
    pub custom_tx: &'a dyn Fn(usize, u32) -> Vec<u32>,
    /// two plain orbits consumed in lock step
    pub pair: &'a dyn Fn(Policy, u32, Policy, u32) -> (Vec<u32>, Vec<u32>),
}

/// Classification used by the 3D claims of C03: glued faces closed and mirrored.
pub fn glued_faces_closed_and_mirrored(s: &State) -> bool {
    if s.dim != 3 {
        return true;
    }
    for d in 1..s.n() as u32 {
        if s.b(3, d) != 0 {
            let (fa, fb) = (s.face_walk(d, true), s.face_walk(s.b(3, d), true));
            if !fa.closed || !fb.closed || fa.fwd.len() != fb.fwd.len() {
                return false;
            }
            // glued as a whole: every dart of the face has its mirror image
            if fa.fwd.iter().any(|&x| s.b(3, x) == 0) {
                return false;
            }
        }
    }
    s.wf().is_ok()
}

pub fn check_ids_orbits(s: &State, q: &Queries, darts: &[u32], probe_n: &mut u64) -> Vec<Finding> {
    let mut out = vec![];
    let dim = s.dim;
    let okinds: &[u8] = if dim == 2 { &[0, 1, 2] } else { &[0, 1, 2, 3] };
    let policies = |o: u8| -> (Policy, Policy) {
        match o {
            0 => (Policy::Vertex, Policy::VertexLinear),
            1 => (Policy::Edge, Policy::Edge),
            2 => (Policy::Face, Policy::FaceLinear),
            _ => (Policy::Volume, Policy::VolumeLinear),
        }
    };
    let claim_3d_vf = glued_faces_closed_and_mirrored(s);
    let parts: Vec<Vec<u32>> = okinds.iter().map(|&o| s.partition(o)).collect();
    for &d in darts {
        if !s.in_use(d) {
            continue;
        }
        // two orbits alive at once (a nested loop): each must be what it is when consumed alone
        {
            let pols: &[Policy] = if dim == 3 { &[Policy::Edge, Policy::Volume, Policy::Face, Policy::Vertex] } else { &[Policy::Face, Policy::Vertex, Policy::Edge] };
            let (p1, p2) = (pols[d as usize % pols.len()], pols[(d as usize / 2 + 1) % pols.len()]);
            let d2 = { let x = s.b(1, d); if x != 0 { x } else { d } };
            let claimed = |p: Policy| !(dim == 3 && matches!(p, Policy::Vertex | Policy::Face) && !claim_3d_vf);
            if claimed(p1) && claimed(p2) {
                let (a, b) = (q.pair)(p1, d, p2, d2);
                let (a0, b0) = ((q.orbit)(p1, d), (q.orbit)(p2, d2));
                if a != a0 || b != b0 {
                    out.push(fnd("C03", "interleaved-orbits-differ", format!("orbit({p1:?}, {d}) and orbit({p2:?}, {d2}) advanced in lock step yield {:?} and {:?}; consumed one at a time {a0:?} and {b0:?}", &a[..a.len().min(40)], &b[..b.len().min(40)])));
                }
            }
        }
        // one custom policy per dart (which one varies with the dart): closure under the listed
        // images, which are closed under inverses
        {
            let n_lists = if dim == 3 { crate::anymap::CUSTOM_LISTS.len() } else { crate::anymap::N_CUSTOM_2D };
            let k = (d as usize * 7 + s.n()) % n_lists;
            let list = crate::anymap::CUSTOM_LISTS[k];
            let mut model = vec![d];
            let mut i = 0;
            while i < model.len() {
                let x = model[i];
                for &b in list {
                    let y = s.b(b, x);
                    if y != 0 && !model.contains(&y) {
                        model.push(y);
                    }
                }
                i += 1;
            }
            model.sort_unstable();
            for (name, got) in [("orbit", (q.custom)(k, d)), ("orbit_transac", (q.custom_tx)(k, d))] {
                let mut sorted = got.clone();
                sorted.sort_unstable();
                let dup = sorted.windows(2).any(|w| w[0] == w[1]);
                if got.first() != Some(&d) || sorted != model || dup || got.contains(&0) {
                    out.push(fnd("C03", "custom-orbit-differs-from-definition", format!("{name}(Custom({list:?}), {d}) = {got:?}, the closure under these images is {model:?} (dart first)")));
                }
            }
        }
        for (oi, &o) in okinds.iter().enumerate() {
            if dim == 3 && (o == 0 || o == 2) && !claim_3d_vf {
                continue;
            }
            *probe_n += 1;
            let (p, plin) = policies(o);
            let model: Vec<u32> = s.orbit(p, d);
            // orbit: start dart first, then exactly the model orbit, each once, never null
            for (name, got) in [("orbit", (q.orbit)(p, d)), ("orbit_transac", (q.orbit_tx)(p, d)), ("i_cell", (q.i_cell)(o, d))] {
                let mut sorted = got.clone();
                sorted.sort_unstable();
                let dup = sorted.windows(2).any(|w| w[0] == w[1]);
                if got.first() != Some(&d) || sorted != model || dup || got.contains(&0) {
                    out.push(fnd("C03", "orbit-differs-from-definition", format!("{name}({p:?}, {d}) = {got:?}, definition gives {model:?} (dart first)")));
                }
            }
            // linear policies: claimed on closed cells only
            if plin != p && cell_is_closed(s, o, &model) {
                let got = (q.orbit)(plin, d);
                let mut sorted = got.clone();
                sorted.sort_unstable();
                if got.first() != Some(&d) || sorted != model {
                    out.push(fnd("C03", "linear-orbit-differs-on-closed-cell", format!("orbit({plin:?}, {d}) = {got:?} on a closed cell, definition gives {model:?}")));
                }
                let got = (q.orbit_tx)(plin, d);
                let mut sorted = got.clone();
                sorted.sort_unstable();
                if got.first() != Some(&d) || sorted != model {
                    out.push(fnd("C03", "linear-orbit-differs-on-closed-cell", format!("orbit_transac({plin:?}, {d}) = {got:?} on a closed cell, definition gives {model:?}")));
                }
            }
            let id = model[0];
            let (g1, g2) = ((q.cell_id)(o, d), (q.cell_id_tx)(o, d));
            if g1 != id || g2 != id {
                out.push(fnd("C03", "cell-id-not-min-of-orbit", format!("{} id of dart {d}: plain {g1}, transactional {g2}, smallest dart of the cell {id} (cell {model:?})", ["vertex", "edge", "face", "volume"][o as usize])));
            }
            debug_assert_eq!(parts[oi][d as usize], id);
        }
    }
    // iterators: sorted distinct ids of in-use darts, each once
    for (oi, &o) in okinds.iter().enumerate() {
        if dim == 3 && (o == 0 || o == 2) && !claim_3d_vf {
            continue;
        }
        let mut want: Vec<u32> = (1..s.n() as u32).filter(|&d| s.in_use(d)).map(|d| parts[oi][d as usize]).collect();
        want.sort_unstable();
        want.dedup();
        // ids of cells made only of in-use darts are what the statement talks about; a cell
        // whose smallest dart is removed cannot occur on a well-formed map (removed darts are free)
        let got = (q.iter_cells)(o);
        if got != want {
            out.push(fnd("C03", "iterator-differs", format!("iter over {} cells yields {got:?}, expected sorted distinct ids {want:?}", ["vertex", "edge", "face", "volume"][o as usize])));
        }
    }
    out
}

/// Is the cell (given as its dart set) closed for the purposes of the linear policies: every
/// forward generator of the linear policy is defined (non-null) on every dart of the cell. Total
/// injective self-maps of a finite set are permutations, so the forward closure then equals the
/// orbit under generators and inverses, which is what the statement claims "on closed cells". A
/// generator that is null on the *whole* cell (beta3 on an unglued face) is simply absent.
fn cell_is_closed(s: &State, o: u8, cell: &[u32]) -> bool {
    let b = |i: u8, x: u32| if x == 0 { 0 } else { s.b(i, x) };
    let gens: Vec<Box<dyn Fn(u32) -> u32>> = match (s.dim, o) {
        (2, 0) => vec![Box::new(|d| b(1, b(2, d)))],
        (2, 2) => vec![Box::new(|d| b(1, d))],
        (3, 0) => vec![Box::new(|d| b(3, b(2, d))), Box::new(|d| b(1, b(3, d))), Box::new(|d| b(1, b(2, d)))],
        (3, 2) => vec![Box::new(|d| b(1, d)), Box::new(|d| b(3, d))],
        (3, 3) => vec![Box::new(|d| b(1, d)), Box::new(|d| b(2, d))],
        _ => return true,
    };
    gens.iter().all(|g| {
        let defined = cell.iter().filter(|&&d| g(d) != 0).count();
        defined == cell.len() || (defined == 0 && gens.len() > 1)
    })
}
