//! SplitMix64: the only source of randomness of the simulator. One seed, one run.

#[derive(Clone, Debug)]
pub struct Rng(pub u64);

#[inline]
pub fn mix64(mut z: u64) -> u64 {
    z = z.wrapping_add(0x9E37_79B9_7F4A_7C15);
    z = (z ^ (z >> 30)).wrapping_mul(0xBF58_476D_1CE4_E5B9);
    z = (z ^ (z >> 27)).wrapping_mul(0x94D0_49BB_1331_11EB);
    z ^ (z >> 31)
}

/// Derive the seed of run `i` of property `prop` from the base seed.
pub fn derive(base: u64, prop: &str, i: u64) -> u64 {
    let mut h = mix64(base ^ 0x5EED_0000_0000_0000);
    for b in prop.bytes() {
        h = mix64(h ^ u64::from(b));
    }
    mix64(h ^ i.wrapping_mul(0xD6E8_FEB8_6659_FD93))
}

impl Rng {
    pub fn new(seed: u64) -> Self {
        Rng(mix64(seed ^ 0xA5A5_A5A5_5A5A_5A5A))
    }
    /// Independent sub-stream.
    pub fn fork(&mut self, tag: u64) -> Rng {
        Rng::new(self.next() ^ mix64(tag))
    }
    #[inline]
    pub fn next(&mut self) -> u64 {
        self.0 = self.0.wrapping_add(0x9E37_79B9_7F4A_7C15);
        let mut z = self.0;
        z = (z ^ (z >> 30)).wrapping_mul(0xBF58_476D_1CE4_E5B9);
        z = (z ^ (z >> 27)).wrapping_mul(0x94D0_49BB_1331_11EB);
        z ^ (z >> 31)
    }
    /// Uniform in 0..n (n > 0).
    #[inline]
    pub fn below(&mut self, n: usize) -> usize {
        debug_assert!(n > 0);
        ((u128::from(self.next()) * (n as u128)) >> 64) as usize
    }
    /// Uniform in lo..=hi.
    pub fn range(&mut self, lo: usize, hi: usize) -> usize {
        lo + self.below(hi - lo + 1)
    }
    pub fn chance(&mut self, p: f64) -> bool {
        (self.next() >> 11) as f64 / ((1u64 << 53) as f64) < p
    }
    pub fn unit(&mut self) -> f64 {
        (self.next() >> 11) as f64 / ((1u64 << 53) as f64)
    }
    pub fn pick<'a, T>(&mut self, xs: &'a [T]) -> &'a T {
        &xs[self.below(xs.len())]
    }
    pub fn shuffle<T>(&mut self, xs: &mut [T]) {
        for i in (1..xs.len()).rev() {
            let j = self.below(i + 1);
            xs.swap(i, j);
        }
    }
}
