//! `AnyMap`: the real `CMap2<f64>` / `CMap3<f64>` behind one runtime-dispatched interface,
//! construction from a `State` recipe (with the attribute hash order forced to a chosen
//! permutation by rejection sampling), and the snapshot of every observable part.
//!
//! Everything here touches scheduler-owned locks, so it must run inside a shuttle execution.

use fast_stm::{
    StmClosureResult, Transaction, TransactionClosureResult, TransactionError, abort, atomically,
    atomically_with_err,
};
use honeycomb_core::cmap::{CMap2, CMap3, CMapBuilder, LinkError, OrbitPolicy, SewError};
use honeycomb_core::geometry::{Vertex2, Vertex3};
use honeycomb_kernels::utils::{EdgeAnchor, FaceAnchor, VertexAnchor};

use crate::attrs::*;
use crate::faults;
use crate::state::*;

pub enum AnyMap {
    M2(CMap2<f64>),
    M3(CMap3<f64>),
}

/// Order in which the attribute manager iterates the registered kinds, per orbit kind
/// (0 vertex, 1 edge, 2 face). A permutation of the registered kinds of that orbit.
pub type KindOrder = [Vec<u8>; 3];

/// Custom orbit policies exercised by C03: lists of images closed under inverses (0 and 1 come
/// together; 2 and 3 are involutions), in every order — for these the forward closure the
/// implementation computes is the definitional orbit. Indexes >= `N_CUSTOM_2D` need dimension 3.
pub static CUSTOM_LISTS: [&[u8]; 15] = [
    &[0, 1], &[1, 0], &[2], &[0, 1, 2], &[2, 1, 0], &[1, 2, 0], &[2, 0, 1],
    &[3], &[2, 3], &[3, 2], &[0, 1, 3], &[3, 1, 0], &[0, 1, 2, 3], &[3, 2, 1, 0], &[2, 3, 0, 1],
];
pub const N_CUSTOM_2D: usize = 7;

pub fn policy_of(p: Policy) -> OrbitPolicy {
    match p {
        Policy::Vertex => OrbitPolicy::Vertex,
        Policy::VertexLinear => OrbitPolicy::VertexLinear,
        Policy::Edge => OrbitPolicy::Edge,
        Policy::Face => OrbitPolicy::Face,
        Policy::FaceLinear => OrbitPolicy::FaceLinear,
        Policy::Volume => OrbitPolicy::Volume,
        Policy::VolumeLinear => OrbitPolicy::VolumeLinear,
    }
}

/// Dispatch on a runtime kind index to the attribute type and its u64 codec.
macro_rules! with_kind {
    ($k:expr, |$T:ident, $enc:ident, $dec:ident| $body:expr) => {{
        fn ew<T: Into<u64>>(x: T) -> u64 { x.into() }
        let _ = ew::<u64>;
        match $k {
            K_WV => { type $T = Wv; let $enc = |a: Wv| a.0; let $dec = |v: u64| Wv(v); $body }
            K_TV => { type $T = Tv; let $enc = |a: Tv| a.0; let $dec = |v: u64| Tv(v); $body }
            K_WE => { type $T = We; let $enc = |a: We| a.0; let $dec = |v: u64| We(v); $body }
            K_TE => { type $T = Te; let $enc = |a: Te| a.0; let $dec = |v: u64| Te(v); $body }
            K_WF => { type $T = Wf; let $enc = |a: Wf| a.0; let $dec = |v: u64| Wf(v); $body }
            K_TF => { type $T = Tf; let $enc = |a: Tf| a.0; let $dec = |v: u64| Tf(v); $body }
            K_VA => { type $T = VertexAnchor; let $enc = enc_va; let $dec = dec_va; $body }
            K_EA => { type $T = EdgeAnchor; let $enc = enc_ea; let $dec = dec_ea; $body }
            K_FA => { type $T = FaceAnchor; let $enc = enc_fa; let $dec = dec_fa; $body }
            _ => panic!("unknown attribute kind"),
        }
    }};
}
pub(crate) use with_kind;

macro_rules! both {
    ($self:expr, |$m:ident| $body:expr) => {
        match $self {
            AnyMap::M2($m) => $body,
            AnyMap::M3($m) => $body,
        }
    };
}

macro_rules! dispatch_i {
    ($self:expr, $i:expr, |$m:ident, $I:ident| $body:expr) => {
        match ($self, $i) {
            (AnyMap::M2($m), 1) => { const $I: u8 = 1; $body }
            (AnyMap::M2($m), 2) => { const $I: u8 = 2; $body }
            (AnyMap::M3($m), 1) => { const $I: u8 = 1; $body }
            (AnyMap::M3($m), 2) => { const $I: u8 = 2; $body }
            (AnyMap::M3($m), 3) => { const $I: u8 = 3; $body }
            _ => panic!("bad dimension index"),
        }
    };
}

impl AnyMap {
    pub fn dim(&self) -> u8 {
        match self {
            AnyMap::M2(_) => 2,
            AnyMap::M3(_) => 3,
        }
    }
    pub fn n_darts(&self) -> usize {
        both!(self, |m| m.n_darts())
    }
    /// Counters the map reports about itself (dart count, removed-dart count, vertex count):
    /// observable, and derived from the rest of the state only as long as the implementation
    /// keeps them so.
    pub fn derived(&self) -> [usize; 3] {
        both!(self, |m| [m.n_darts(), m.n_unused_darts(), m.n_vertices()])
    }
    pub fn n_unused(&self) -> usize {
        both!(self, |m| m.n_unused_darts())
    }
    pub fn beta(&self, i: u8, d: u32) -> u32 {
        both!(self, |m| m.beta_rt(i, d))
    }
    pub fn beta_tx(&self, t: &mut Transaction, i: u8, d: u32) -> StmClosureResult<u32> {
        both!(self, |m| m.beta_rt_transac(t, i, d))
    }
    pub fn is_unused(&self, d: u32) -> bool {
        match self {
            AnyMap::M2(m) => m.is_unused(d),
            // no getter in 3D: read the flag through a transaction that publishes nothing
            AnyMap::M3(m) => {
                let r: Result<(), bool> = atomically_with_err(|t| {
                    let old = m.remove_free_dart_transac(t, d)?;
                    abort(old)
                });
                r.unwrap_err()
            }
        }
    }

    // ---- topology, transactional
    pub fn link_tx(&self, t: &mut Transaction, i: u8, l: u32, r: u32) -> TransactionClosureResult<(), LinkError> {
        dispatch_i!(self, i, |m, I| m.link::<I>(t, l, r))
    }
    pub fn unlink_tx(&self, t: &mut Transaction, i: u8, l: u32) -> TransactionClosureResult<(), LinkError> {
        dispatch_i!(self, i, |m, I| m.unlink::<I>(t, l))
    }
    pub fn sew_tx(&self, t: &mut Transaction, i: u8, l: u32, r: u32) -> TransactionClosureResult<(), SewError> {
        dispatch_i!(self, i, |m, I| m.sew::<I>(t, l, r))
    }
    pub fn unsew_tx(&self, t: &mut Transaction, i: u8, l: u32) -> TransactionClosureResult<(), SewError> {
        dispatch_i!(self, i, |m, I| m.unsew::<I>(t, l))
    }
    // ---- topology, retry-until-committed form
    pub fn force_link(&self, i: u8, l: u32, r: u32) -> Result<(), LinkError> {
        dispatch_i!(self, i, |m, I| m.force_link::<I>(l, r))
    }
    pub fn force_unlink(&self, i: u8, l: u32) -> Result<(), LinkError> {
        dispatch_i!(self, i, |m, I| m.force_unlink::<I>(l))
    }
    pub fn force_sew(&self, i: u8, l: u32, r: u32) -> Result<(), SewError> {
        dispatch_i!(self, i, |m, I| m.force_sew::<I>(l, r))
    }
    pub fn force_unsew(&self, i: u8, l: u32) -> Result<(), SewError> {
        dispatch_i!(self, i, |m, I| m.force_unsew::<I>(l))
    }

    // ---- ids
    pub fn cell_id_tx(&self, t: &mut Transaction, okind: u8, d: u32) -> StmClosureResult<u32> {
        match (self, okind) {
            (AnyMap::M2(m), 0) => m.vertex_id_transac(t, d),
            (AnyMap::M2(m), 1) => m.edge_id_transac(t, d),
            (AnyMap::M2(m), 2) => m.face_id_transac(t, d),
            (AnyMap::M3(m), 0) => m.vertex_id_transac(t, d),
            (AnyMap::M3(m), 1) => m.edge_id_transac(t, d),
            (AnyMap::M3(m), 2) => m.face_id_transac(t, d),
            (AnyMap::M3(m), 3) => m.volume_id_transac(t, d),
            _ => panic!("bad orbit kind"),
        }
    }
    pub fn cell_id(&self, okind: u8, d: u32) -> u32 {
        match (self, okind) {
            (AnyMap::M2(m), 0) => m.vertex_id(d),
            (AnyMap::M2(m), 1) => m.edge_id(d),
            (AnyMap::M2(m), 2) => m.face_id(d),
            (AnyMap::M3(m), 0) => m.vertex_id(d),
            (AnyMap::M3(m), 1) => m.edge_id(d),
            (AnyMap::M3(m), 2) => m.face_id(d),
            (AnyMap::M3(m), 3) => m.volume_id(d),
            _ => panic!("bad orbit kind"),
        }
    }
    pub fn iter_cells(&self, okind: u8) -> Vec<u32> {
        match (self, okind) {
            (AnyMap::M2(m), 0) => m.iter_vertices().collect(),
            (AnyMap::M2(m), 1) => m.iter_edges().collect(),
            (AnyMap::M2(m), 2) => m.iter_faces().collect(),
            (AnyMap::M3(m), 0) => m.iter_vertices().collect(),
            (AnyMap::M3(m), 1) => m.iter_edges().collect(),
            (AnyMap::M3(m), 2) => m.iter_faces().collect(),
            (AnyMap::M3(m), 3) => m.iter_volumes().collect(),
            _ => panic!("bad orbit kind"),
        }
    }
    pub fn orbit(&self, p: Policy, d: u32) -> Vec<u32> {
        both!(self, |m| m.orbit(policy_of(p), d).collect())
    }
    pub fn i_cell(&self, o: u8, d: u32) -> Vec<u32> {
        match (self, o) {
            (AnyMap::M2(m), 0) => m.i_cell::<0>(d).collect(),
            (AnyMap::M2(m), 1) => m.i_cell::<1>(d).collect(),
            (AnyMap::M2(m), 2) => m.i_cell::<2>(d).collect(),
            (AnyMap::M3(m), 0) => m.i_cell::<0>(d).collect(),
            (AnyMap::M3(m), 1) => m.i_cell::<1>(d).collect(),
            (AnyMap::M3(m), 2) => m.i_cell::<2>(d).collect(),
            (AnyMap::M3(m), 3) => m.i_cell::<3>(d).collect(),
            _ => panic!("no {o}-cells in this dimension"),
        }
    }
    /// Two plain orbit iterators alive at once, advanced in lock step (what a nested loop over
    /// two orbits does).
    pub fn orbit_pair(&self, p1: Policy, d1: u32, p2: Policy, d2: u32) -> (Vec<u32>, Vec<u32>) {
        both!(self, |m| {
            let (mut a, mut b) = (m.orbit(policy_of(p1), d1), m.orbit(policy_of(p2), d2));
            let (mut ra, mut rb) = (vec![], vec![]);
            let (mut da, mut db) = (false, false);
            // (bounded: an iterator that lost its marks may never end)
            while !(da && db) && ra.len() + rb.len() < 100_000 {
                if !da {
                    match a.next() {
                        Some(x) => ra.push(x),
                        None => da = true,
                    }
                }
                if !db {
                    match b.next() {
                        Some(x) => rb.push(x),
                        None => db = true,
                    }
                }
            }
            (ra, rb)
        })
    }
    pub fn custom_orbit(&self, list: usize, d: u32) -> Vec<u32> {
        both!(self, |m| m.orbit(OrbitPolicy::Custom(CUSTOM_LISTS[list]), d).collect())
    }
    pub fn custom_orbit_tx(&self, t: &mut Transaction, list: usize, d: u32) -> StmClosureResult<Vec<u32>> {
        both!(self, |m| m.orbit_transac(t, OrbitPolicy::Custom(CUSTOM_LISTS[list]), d).collect::<Result<Vec<u32>, _>>())
    }
    pub fn orbit_tx(&self, t: &mut Transaction, p: Policy, d: u32) -> StmClosureResult<Vec<u32>> {
        both!(self, |m| m.orbit_transac(t, policy_of(p), d).collect::<Result<Vec<u32>, _>>())
    }

    // ---- coordinates
    pub fn read_vertex_tx(&self, t: &mut Transaction, id: u32) -> StmClosureResult<Option<Bits3>> {
        match self {
            AnyMap::M2(m) => Ok(m.read_vertex(t, id)?.map(|v| b3([v.0, v.1, 0.0]))),
            AnyMap::M3(m) => Ok(m.read_vertex(t, id)?.map(|v| b3([v.0, v.1, v.2]))),
        }
    }
    pub fn write_vertex_tx(&self, t: &mut Transaction, id: u32, v: Bits3) -> StmClosureResult<Option<Bits3>> {
        let f = f3(v);
        match self {
            AnyMap::M2(m) => Ok(m.write_vertex(t, id, Vertex2(f[0], f[1]))?.map(|v| b3([v.0, v.1, 0.0]))),
            AnyMap::M3(m) => Ok(m.write_vertex(t, id, Vertex3(f[0], f[1], f[2]))?.map(|v| b3([v.0, v.1, v.2]))),
        }
    }
    pub fn remove_vertex_tx(&self, t: &mut Transaction, id: u32) -> StmClosureResult<Option<Bits3>> {
        match self {
            AnyMap::M2(m) => Ok(m.remove_vertex(t, id)?.map(|v| b3([v.0, v.1, 0.0]))),
            AnyMap::M3(m) => Ok(m.remove_vertex(t, id)?.map(|v| b3([v.0, v.1, v.2]))),
        }
    }
    pub fn read_vertex(&self, id: u32) -> Option<Bits3> {
        match self {
            AnyMap::M2(m) => m.force_read_vertex(id).map(|v| b3([v.0, v.1, 0.0])),
            AnyMap::M3(m) => m.force_read_vertex(id).map(|v| b3([v.0, v.1, v.2])),
        }
    }
    pub fn write_vertex(&self, id: u32, v: Bits3) -> Option<Bits3> {
        let f = f3(v);
        match self {
            AnyMap::M2(m) => m.force_write_vertex(id, Vertex2(f[0], f[1])).map(|v| b3([v.0, v.1, 0.0])),
            AnyMap::M3(m) => m.force_write_vertex(id, Vertex3(f[0], f[1], f[2])).map(|v| b3([v.0, v.1, v.2])),
        }
    }
    pub fn remove_vertex(&self, id: u32) -> Option<Bits3> {
        match self {
            AnyMap::M2(m) => m.force_remove_vertex(id).map(|v| b3([v.0, v.1, 0.0])),
            AnyMap::M3(m) => m.force_remove_vertex(id).map(|v| b3([v.0, v.1, v.2])),
        }
    }

    // ---- attributes
    pub fn read_attr_tx(&self, t: &mut Transaction, k: usize, id: u32) -> StmClosureResult<Option<u64>> {
        with_kind!(k, |A, enc, _dec| both!(self, |m| Ok(m.read_attribute::<A>(t, id)?.map(enc))))
    }
    pub fn write_attr_tx(&self, t: &mut Transaction, k: usize, id: u32, v: u64) -> StmClosureResult<Option<u64>> {
        with_kind!(k, |A, enc, dec| both!(self, |m| Ok(m.write_attribute::<A>(t, id, dec(v))?.map(enc))))
    }
    pub fn remove_attr_tx(&self, t: &mut Transaction, k: usize, id: u32) -> StmClosureResult<Option<u64>> {
        with_kind!(k, |A, enc, _dec| both!(self, |m| Ok(m.remove_attribute::<A>(t, id)?.map(enc))))
    }
    pub fn read_attr(&self, k: usize, id: u32) -> Option<u64> {
        with_kind!(k, |A, enc, _dec| both!(self, |m| m.force_read_attribute::<A>(id).map(enc)))
    }
    pub fn write_attr(&self, k: usize, id: u32, v: u64) -> Option<u64> {
        with_kind!(k, |A, enc, dec| both!(self, |m| m.force_write_attribute::<A>(id, dec(v)).map(enc)))
    }
    pub fn remove_attr(&self, k: usize, id: u32) -> Option<u64> {
        with_kind!(k, |A, enc, _dec| both!(self, |m| m.force_remove_attribute::<A>(id).map(enc)))
    }

    // ---- darts
    pub fn remove_dart_tx(&self, t: &mut Transaction, d: u32) -> StmClosureResult<bool> {
        both!(self, |m| m.remove_free_dart_transac(t, d))
    }
    pub fn add_free_dart(&mut self) -> u32 {
        both!(self, |m| m.add_free_dart())
    }
    pub fn add_free_darts(&mut self, n: usize) -> u32 {
        both!(self, |m| m.add_free_darts(n))
    }
    pub fn insert_free_dart(&mut self) -> u32 {
        both!(self, |m| m.insert_free_dart())
    }
    pub fn remove_free_dart(&mut self, d: u32) {
        both!(self, |m| m.remove_free_dart(d))
    }

    // ---- snapshot: every observable part, through the public API only
    pub fn snapshot(&self, kinds: KindMask) -> State {
        let n = self.n_darts();
        let dim = self.dim();
        let mut s = State::new(dim, n, kinds);
        for d in 0..n as u32 {
            for i in 0..=dim {
                s.beta[d as usize][i as usize] = self.beta(i, d);
            }
            s.unused[d as usize] = self.is_unused(d);
            s.vtx[d as usize] = self.read_vertex(d);
            for k in 0..N_KINDS {
                if mask_has(kinds, k) {
                    s.attrs[k][d as usize] = self.read_attr(k, d);
                }
            }
        }
        s
    }

    /// Snapshot taken inside one transaction (a consistent view for concurrent auditors).
    pub fn snapshot_tx(&self, t: &mut Transaction, kinds: KindMask, with_attrs: bool) -> StmClosureResult<State> {
        let n = self.n_darts();
        let dim = self.dim();
        let mut s = State::new(dim, n, kinds);
        for d in 0..n as u32 {
            for i in 0..=dim {
                s.beta[d as usize][i as usize] = self.beta_tx(t, i, d)?;
            }
            s.unused[d as usize] = match self {
                AnyMap::M2(m) => m.is_unused_transac(t, d)?,
                AnyMap::M3(_) => false,
            };
            if with_attrs {
                s.vtx[d as usize] = self.read_vertex_tx(t, d)?;
                for k in 0..N_KINDS {
                    if mask_has(kinds, k) {
                        s.attrs[k][d as usize] = self.read_attr_tx(t, k, d)?;
                    }
                }
            }
        }
        Ok(s)
    }
}

// ------------------------------------------------------------------------------- construction

fn new_blank(dim: u8, n: usize, kinds: KindMask) -> AnyMap {
    macro_rules! add_kinds {
        ($b:expr) => {{
            let mut b = $b;
            if mask_has(kinds, K_WV) { b = b.add_attribute::<Wv>(); }
            if mask_has(kinds, K_TV) { b = b.add_attribute::<Tv>(); }
            if mask_has(kinds, K_WE) { b = b.add_attribute::<We>(); }
            if mask_has(kinds, K_TE) { b = b.add_attribute::<Te>(); }
            if mask_has(kinds, K_WF) { b = b.add_attribute::<Wf>(); }
            if mask_has(kinds, K_TF) { b = b.add_attribute::<Tf>(); }
            if mask_has(kinds, K_VA) { b = b.add_attribute::<VertexAnchor>(); }
            if mask_has(kinds, K_EA) { b = b.add_attribute::<EdgeAnchor>(); }
            if mask_has(kinds, K_FA) { b = b.add_attribute::<FaceAnchor>(); }
            b
        }};
    }
    if dim == 2 {
        AnyMap::M2(add_kinds!(CMapBuilder::<2, f64>::from_n_darts(n)).build().unwrap())
    } else {
        AnyMap::M3(add_kinds!(CMapBuilder::<3, f64>::from_n_darts(n)).build().unwrap())
    }
}

/// Canonical order (increasing kind index) of the kinds of `mask` per orbit.
pub fn canonical_order(mask: KindMask) -> KindOrder {
    let mut o: KindOrder = [vec![], vec![], vec![]];
    for k in mask_kinds(mask) {
        o[kind_orbit(k) as usize].push(k as u8);
    }
    o
}

/// Read the order in which the attribute manager of `m` iterates the kinds of one orbit, by
/// running a scratch sew on darts 1..=3 inside a transaction that is then aborted (nothing is
/// published). Harness kinds log their callbacks; the (single) real anchor kind of the orbit is
/// located by a second probe in which only its two values conflict.
fn probe_order(m: &AnyMap, mask: KindMask, orbit: u8) -> Vec<u8> {
    let ks: Vec<usize> = mask_kinds(mask).into_iter().filter(|&k| kind_orbit(k) == orbit).collect();
    if ks.len() < 2 {
        return ks.iter().map(|&k| k as u8).collect();
    }
    if orbit == 2 && m.dim() == 2 {
        // face attributes are never merged or split by 2D operations: order unobservable
        return ks.iter().map(|&k| k as u8).collect();
    }
    let run = |conflict_anchor: bool| -> Vec<(u8, u8)> {
        // scratch cells and the merge that will be provoked:
        //   vertex: ids 2 and 3 via 2-link(1,2) then 1-sew(1,3);
        //   edge:   ids 1 and 2 via 2-sew(1,2) of two 1-free darts;
        //   face:   ids 1 and 2 via 3-sew(1,2) of two isolated darts (3D).
        let (a, b) = if orbit == 0 { (2u32, 3u32) } else { (1u32, 2u32) };
        // the values are committed for real (and removed afterwards) so that the probe does not
        // depend on how the storage reads its inputs; only the sew is run in a transaction that
        // is aborted
        for &k in &ks {
            let (va, vb) = if kind_is_anchor(k) {
                if conflict_anchor { ((1u64 << 33) | 1, (1u64 << 33) | 2) } else { ((1 << 33) | 1, (1 << 33) | 1) }
            } else {
                (1, 1)
            };
            m.write_attr(k, a, va);
            m.write_attr(k, b, vb);
        }
        if orbit == 0 {
            m.write_vertex(2, [0, 0, 0]);
            m.write_vertex(3, [0, 0, 0]);
        }
        faults::set_logging(true);
        let _r: Result<(), ()> = atomically_with_err(|t| {
            faults::begin_attempt();
            let res: TransactionClosureResult<(), ()> = match orbit {
                0 => {
                    m.link_tx(t, 2, 1, 2).map_err(|e| strip(e))?;
                    m.sew_tx(t, 1, 1, 3).map_err(|e| strip(e))
                }
                1 => m.sew_tx(t, 2, 1, 2).map_err(|e| strip(e)),
                _ => m.sew_tx(t, 3, 1, 2).map_err(|e| strip(e)),
            };
            match res {
                Err(TransactionError::Stm(e)) => Err(TransactionError::Stm(e)),
                _ => abort(()),
            }
        });
        let log = faults::take_log();
        faults::set_logging(false);
        for &k in &ks {
            m.remove_attr(k, a);
            m.remove_attr(k, b);
        }
        if orbit == 0 {
            m.remove_vertex(2);
            m.remove_vertex(3);
        }
        log
    };
    fn strip<E>(e: TransactionError<E>) -> TransactionError<()> {
        match e {
            TransactionError::Abort(_) => TransactionError::Abort(()),
            TransactionError::Stm(s) => TransactionError::Stm(s),
        }
    }
    let of_orbit = |log: Vec<(u8, u8)>| -> Vec<u8> {
        log.iter().map(|&(k, _)| k).filter(|&k| kind_orbit(k as usize) == orbit).collect()
    };
    let harness_order: Vec<u8> = of_orbit(run(false));
    let anchor = ks.iter().copied().find(|&k| kind_is_anchor(k));
    let mut order = harness_order.clone();
    if let Some(a) = anchor {
        let before = of_orbit(run(true)).len();
        order.insert(before.min(order.len()), a as u8);
    }
    debug_assert_eq!(order.len(), ks.len(), "probe saw {order:?} for kinds {ks:?}");
    order
}

thread_local! {
    /// how often the hash order could not be forced (see build_map)
    pub static ORDER_UNCONTROLLED: std::cell::Cell<u64> = const { std::cell::Cell::new(0) };
}

pub struct BuildInfo {
    pub tries: u32,
}

/// Build a real map equal to `s`, whose attribute manager iterates kinds in `order`.
/// `s.n()` must be at least 4 (three scratch darts + null).
pub fn build_map(s: &State, order: &KindOrder) -> (AnyMap, BuildInfo) {
    assert!(s.n() >= 4, "recipes need at least 3 darts");
    let mut tries = 0;
    let mut m = loop {
        tries += 1;
        let m = new_blank(s.dim, 3, s.kinds);
        let ok = (0..3u8).all(|o| {
            let want = &order[o as usize];
            want.len() < 2 || (o == 2 && s.dim == 2) || &probe_order(&m, s.kinds, o) == want
        });
        if ok {
            break m;
        }
        if tries >= 4_000 {
            // the probe cannot see the requested order (possible when the code under test is
            // broken in the merge path itself): run with whatever order this map has rather than
            // spin; verdicts do not depend on the order, only exact replay across processes does
            ORDER_UNCONTROLLED.with(|c| c.set(c.get() + 1));
            break m;
        }
    };
    if s.n() > 4 {
        m.add_free_darts(s.n() - 4);
    }
    fill_map(&mut m, s);
    // construction (whose cost depends on how many tries the hash-order rejection sampling
    // needed in this process) is not part of what a run measures
    fast_stm::verif::reset_execution();
    (m, BuildInfo { tries })
}

/// Build without controlling the hash order (for scenarios with at most one kind per orbit).
pub fn build_map_any_order(s: &State) -> AnyMap {
    let mut m = new_blank(s.dim, s.n() - 1, s.kinds);
    fill_map(&mut m, s);
    m
}

fn fill_map(m: &mut AnyMap, s: &State) {
    for d in 1..s.n() as u32 {
        let b = s.beta[d as usize];
        match &*m {
            AnyMap::M2(mm) => mm.set_betas(d, [b[0], b[1], b[2]]),
            AnyMap::M3(mm) => mm.set_betas(d, b),
        }
    }
    for d in 1..s.n() as u32 {
        if let Some(v) = s.vtx[d as usize] {
            m.write_vertex(d, v);
        }
        for k in 0..N_KINDS {
            if mask_has(s.kinds, k) {
                if let Some(v) = s.attrs[k][d as usize] {
                    m.write_attr(k, d, v);
                }
            }
        }
    }
    for d in 1..s.n() as u32 {
        if s.unused[d as usize] {
            // the flag only; recipes may carry data on removed slots (slot reuse scenarios)
            atomically(|t| m.remove_dart_tx(t, d));
        }
    }
}
