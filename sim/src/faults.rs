//! Fault F1: failing user attribute callbacks, driven by a plan local to the simulated thread.
//!
//! Every callback of a harness attribute kind calls [`callback`], which counts it, optionally
//! logs it (used by the hash-order probe and by the C06 enumeration to learn N) and fails it
//! when the armed plan says so. Counting restarts at every [`begin_attempt`], i.e. at the start
//! of every execution of a transaction body, so a plan is a deterministic function of the body:
//! "the k-th callback of this transaction fails" has the same meaning in a concurrent attempt,
//! in a re-execution and in a serial reference run.

use std::cell::{Cell, RefCell};

use honeycomb_core::attributes::AttributeError;

pub const CB_MERGE: u8 = 0;
pub const CB_MERGE_INCOMPLETE: u8 = 1;
pub const CB_MERGE_FROM_NONE: u8 = 2;
pub const CB_SPLIT: u8 = 3;
pub const CB_SPLIT_FROM_NONE: u8 = 4;

struct Plan {
    /// callbacks seen in the current attempt
    count: Cell<u32>,
    /// 1-based indexes that fail (empty: none)
    fail_at: RefCell<Vec<u32>>,
    /// log of (kind, callback) of the current attempt
    log: RefCell<Vec<(u8, u8)>>,
    logging: Cell<bool>,
    /// total failures injected on this simulated thread
    fired: Cell<u32>,
    /// position class of the last firing: (index, count known later)
    last_fired_at: Cell<u32>,
    /// callbacks (injected or natural) that returned an error during the current attempt
    rejections: Cell<u32>,
    /// attempt number (of the instrumented STM) the counters belong to
    attempt_seen: Cell<u32>,
    /// when non-zero, the plan only fires in this attempt (1-based) of the transaction
    only_attempt: Cell<u32>,
}

shuttle::thread_local! {
    static PLAN: Plan = Plan {
        count: Cell::new(0),
        fail_at: RefCell::new(Vec::new()),
        log: RefCell::new(Vec::new()),
        logging: Cell::new(false),
        fired: Cell::new(0),
        last_fired_at: Cell::new(0),
        rejections: Cell::new(0),
        attempt_seen: Cell::new(u32::MAX),
        only_attempt: Cell::new(0),
    };
}

/// Arm the plan of the calling simulated thread (1-based callback indexes that fail).
pub fn arm(fail_at: &[u32]) {
    PLAN.with(|p| {
        *p.fail_at.borrow_mut() = fail_at.to_vec();
        p.count.set(0);
        p.attempt_seen.set(u32::MAX);
    });
}

pub fn disarm() {
    PLAN.with(|p| {
        p.fail_at.borrow_mut().clear();
        p.count.set(0);
        p.only_attempt.set(0);
    });
}

/// Restrict the armed plan to one attempt (1-based) of the transaction; 0 = every attempt.
pub fn only_in_attempt(a: u32) {
    PLAN.with(|p| p.only_attempt.set(a));
}

/// To be called at the start of every execution of a transaction body. (Bodies run by the
/// library itself, e.g. inside `force_sew`, are detected through the attempt counter of the
/// instrumented STM instead, see `sync_attempt`.)
pub fn begin_attempt() {
    PLAN.with(|p| {
        p.count.set(0);
        p.rejections.set(0);
        p.attempt_seen.set(fast_stm::verif::attempts_of_this_thread());
        if p.logging.get() {
            p.log.borrow_mut().clear();
        }
    });
}

fn sync_attempt(p: &Plan) {
    let a = fast_stm::verif::attempts_of_this_thread();
    if p.attempt_seen.get() != a {
        p.attempt_seen.set(a);
        p.count.set(0);
        p.rejections.set(0);
        if p.logging.get() {
            p.log.borrow_mut().clear();
        }
    }
}

/// Callbacks that returned an error during the last attempt.
pub fn rejections() -> u32 {
    PLAN.with(|p| p.rejections.get())
}
pub fn clear_rejections() {
    PLAN.with(|p| p.rejections.set(0));
}
/// Pass a law's own result through, counting natural rejections.
pub fn natural<T>(r: Result<T, AttributeError>) -> Result<T, AttributeError> {
    if r.is_err() {
        PLAN.with(|p| p.rejections.set(p.rejections.get() + 1));
    }
    r
}

pub fn set_logging(on: bool) {
    PLAN.with(|p| {
        p.logging.set(on);
        p.log.borrow_mut().clear();
    });
}

/// Callbacks of the last attempt (requires logging).
pub fn take_log() -> Vec<(u8, u8)> {
    PLAN.with(|p| std::mem::take(&mut *p.log.borrow_mut()))
}

/// Number of callbacks seen in the last attempt.
pub fn callbacks_in_last_attempt() -> u32 {
    PLAN.with(|p| p.count.get())
}

pub fn fired_total() -> u32 {
    PLAN.with(|p| p.fired.get())
}

pub fn reset_thread() {
    PLAN.with(|p| {
        p.count.set(0);
        p.fail_at.borrow_mut().clear();
        p.log.borrow_mut().clear();
        p.logging.set(false);
        p.fired.set(0);
        p.last_fired_at.set(0);
        p.rejections.set(0);
        p.attempt_seen.set(u32::MAX);
    });
}

/// Called by every harness attribute callback.
pub fn callback(kind: u8, which: u8) -> Result<(), AttributeError> {
    PLAN.with(|p| {
        sync_attempt(p);
        let n = p.count.get() + 1;
        p.count.set(n);
        if p.logging.get() {
            p.log.borrow_mut().push((kind, which));
        }
        let f = p.fail_at.borrow();
        let oa = p.only_attempt.get();
        if !f.is_empty() && f.contains(&n) && (oa == 0 || oa == fast_stm::verif::attempts_of_this_thread()) {
            p.fired.set(p.fired.get() + 1);
            p.last_fired_at.set(n);
            p.rejections.set(p.rejections.get() + 1);
            return Err(match which {
                CB_SPLIT | CB_SPLIT_FROM_NONE => {
                    AttributeError::FailedSplit("harness attribute", "injected failure (F1)")
                }
                _ => AttributeError::FailedMerge("harness attribute", "injected failure (F1)"),
            });
        }
        Ok(())
    })
}
