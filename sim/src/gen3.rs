//! Seeded generators of well-formed 3-maps: complexes of convex polyhedral cells (tetrahedra,
//! pyramids, prisms, hexahedra) glued along matching faces, with some faces unglued again, some
//! faces opened, free darts, and embedded data.

use crate::attrs::*;
use crate::gen2::fill_values;
use crate::harness::Tier;
use crate::prng::Rng;
use crate::props::hprops::Flavour;
use crate::state::*;

pub struct Cell {
    pub faces: Vec<Vec<usize>>,
}

pub struct Complex {
    pub pts: Vec<[f64; 3]>,
    pub cells: Vec<Cell>,
}

fn sub(a: [f64; 3], b: [f64; 3]) -> [f64; 3] {
    [a[0] - b[0], a[1] - b[1], a[2] - b[2]]
}
fn cross(a: [f64; 3], b: [f64; 3]) -> [f64; 3] {
    [a[1] * b[2] - a[2] * b[1], a[2] * b[0] - a[0] * b[2], a[0] * b[1] - a[1] * b[0]]
}
fn dot(a: [f64; 3], b: [f64; 3]) -> f64 {
    a[0] * b[0] + a[1] * b[1] + a[2] * b[2]
}

impl Complex {
    /// Orient every face of every (convex) cell so that its normal points away from the cell.
    pub fn orient_outward(&mut self) {
        for c in &mut self.cells {
            let mut vs: Vec<usize> = c.faces.iter().flatten().copied().collect();
            vs.sort_unstable();
            vs.dedup();
            let mut cen = [0.0; 3];
            for &v in &vs {
                for k in 0..3 {
                    cen[k] += self.pts[v][k] / vs.len() as f64;
                }
            }
            for f in &mut c.faces {
                let n = cross(sub(self.pts[f[1]], self.pts[f[0]]), sub(self.pts[f[2]], self.pts[f[1]]));
                let mut fc = [0.0; 3];
                for &v in f.iter() {
                    for k in 0..3 {
                        fc[k] += self.pts[v][k] / f.len() as f64;
                    }
                }
                if dot(n, sub(fc, cen)) < 0.0 {
                    f.reverse();
                }
            }
        }
    }
}

pub fn tet(a: usize, b: usize, c: usize, d: usize) -> Cell {
    Cell { faces: vec![vec![a, b, c], vec![a, b, d], vec![b, c, d], vec![a, c, d]] }
}
pub fn pyramid(q: [usize; 4], apex: usize) -> Cell {
    Cell { faces: vec![q.to_vec(), vec![q[0], q[1], apex], vec![q[1], q[2], apex], vec![q[2], q[3], apex], vec![q[3], q[0], apex]] }
}
pub fn prism(a: [usize; 3], b: [usize; 3]) -> Cell {
    Cell {
        faces: vec![a.to_vec(), b.to_vec(), vec![a[0], a[1], b[1], b[0]], vec![a[1], a[2], b[2], b[1]], vec![a[2], a[0], b[0], b[2]]],
    }
}
/// corners: bottom 0..4 cyclic, top 4..8 above them
pub fn hexa(v: [usize; 8]) -> Cell {
    Cell {
        faces: vec![
            vec![v[0], v[1], v[2], v[3]],
            vec![v[4], v[5], v[6], v[7]],
            vec![v[0], v[1], v[5], v[4]],
            vec![v[1], v[2], v[6], v[5]],
            vec![v[2], v[3], v[7], v[6]],
            vec![v[3], v[0], v[4], v[7]],
        ],
    }
}

fn jit(rng: &mut Rng, p: [f64; 3], j: f64) -> [f64; 3] {
    [p[0] + (rng.unit() - 0.5) * j, p[1] + (rng.unit() - 0.5) * j, p[2] + (rng.unit() - 0.5) * j]
}

/// A random small complex.
pub fn rand_complex(rng: &mut Rng, max_cells: usize) -> Complex {
    let j = 0.1;
    let mut c = match rng.below(6) {
        0 => {
            // hex grid a x b x 1
            let (a, b) = if max_cells >= 4 { (1 + rng.below(2), 1 + rng.below(2)) } else if max_cells >= 2 { (1 + rng.below(2), 1) } else { (1, 1) };
            let mut pts = vec![];
            for z in 0..2 {
                for y in 0..=b {
                    for x in 0..=a {
                        pts.push(jit(rng, [x as f64, y as f64, z as f64], j));
                    }
                }
            }
            let id = |x: usize, y: usize, z: usize| z * (a + 1) * (b + 1) + y * (a + 1) + x;
            let mut cells = vec![];
            for y in 0..b {
                for x in 0..a {
                    cells.push(hexa([id(x, y, 0), id(x + 1, y, 0), id(x + 1, y + 1, 0), id(x, y + 1, 0), id(x, y, 1), id(x + 1, y, 1), id(x + 1, y + 1, 1), id(x, y + 1, 1)]));
                }
            }
            Complex { pts, cells }
        }
        1 => {
            // chain of tetrahedra
            let mut pts = vec![jit(rng, [0., 0., 0.], j), jit(rng, [1., 0., 0.], j), jit(rng, [0., 1., 0.], j), jit(rng, [0.3, 0.3, 1.], j)];
            let mut cells = vec![tet(0, 1, 2, 3)];
            if max_cells >= 2 {
                pts.push(jit(rng, [0.3, 0.3, -1.], j));
                cells.push(tet(0, 1, 2, 4));
            }
            if max_cells >= 3 && rng.chance(0.6) {
                pts.push(jit(rng, [1.2, 1.2, 0.8], j));
                cells.push(tet(1, 2, 3, 5));
            }
            Complex { pts, cells }
        }
        2 => {
            // hexahedron with a pyramid on top
            let mut pts = vec![];
            for z in 0..2 {
                for (x, y) in [(0., 0.), (1., 0.), (1., 1.), (0., 1.)] {
                    pts.push(jit(rng, [x, y, z as f64], j));
                }
            }
            let mut cells = vec![hexa([0, 1, 2, 3, 4, 5, 6, 7])];
            if max_cells >= 2 {
                pts.push(jit(rng, [0.5, 0.5, 1.8], j));
                cells.push(pyramid([4, 5, 6, 7], 8));
            }
            Complex { pts, cells }
        }
        3 => {
            // two prisms sharing a quad face (or one)
            let mut pts = vec![];
            for z in 0..2 {
                for (x, y) in [(0., 0.), (1., 0.), (1., 1.), (0., 1.)] {
                    pts.push(jit(rng, [x, y, z as f64], j));
                }
            }
            let mut cells = vec![prism([0, 1, 2], [4, 5, 6])];
            if max_cells >= 2 {
                cells.push(prism([0, 2, 3], [4, 6, 7]));
            }
            Complex { pts, cells }
        }
        4 => {
            // prism with a tetrahedron on a triangular face
            let mut pts = vec![];
            for z in 0..2 {
                for (x, y) in [(0., 0.), (1., 0.), (0., 1.)] {
                    pts.push(jit(rng, [x, y, z as f64], j));
                }
            }
            let mut cells = vec![prism([0, 1, 2], [3, 4, 5])];
            if max_cells >= 2 {
                pts.push(jit(rng, [0.3, 0.3, 1.9], j));
                cells.push(tet(3, 4, 5, 6));
            }
            Complex { pts, cells }
        }
        _ => {
            // single cell of a random kind
            match rng.below(4) {
                0 => Complex { pts: vec![jit(rng, [0., 0., 0.], j), jit(rng, [1., 0., 0.], j), jit(rng, [0., 1., 0.], j), jit(rng, [0.3, 0.3, 1.], j)], cells: vec![tet(0, 1, 2, 3)] },
                1 => {
                    let mut pts = vec![];
                    for (x, y) in [(0., 0.), (1., 0.), (1., 1.), (0., 1.)] {
                        pts.push(jit(rng, [x, y, 0.], j));
                    }
                    pts.push(jit(rng, [0.5, 0.5, 1.], j));
                    Complex { pts, cells: vec![pyramid([0, 1, 2, 3], 4)] }
                }
                2 => {
                    let mut pts = vec![];
                    for z in 0..2 {
                        for (x, y) in [(0., 0.), (1., 0.), (0., 1.)] {
                            pts.push(jit(rng, [x, y, z as f64], j));
                        }
                    }
                    Complex { pts, cells: vec![prism([0, 1, 2], [3, 4, 5])] }
                }
                _ => {
                    let mut pts = vec![];
                    for z in 0..2 {
                        for (x, y) in [(0., 0.), (1., 0.), (1., 1.), (0., 1.)] {
                            pts.push(jit(rng, [x, y, z as f64], j));
                        }
                    }
                    Complex { pts, cells: vec![hexa([0, 1, 2, 3, 4, 5, 6, 7])] }
                }
            }
        }
    };
    c.orient_outward();
    c
}

pub struct Built3 {
    pub state: State,
    /// point index of the origin of every dart
    pub origin: Vec<usize>,
    /// beta3 partner of every dart in the fully glued complex (0 when on the outer boundary)
    pub partner: Vec<u32>,
}

/// Darts of a complex: beta1 around faces, beta2 inside cells, beta3 between matching faces.
pub fn state_from_complex(c: &Complex, kinds: KindMask, extra_free: usize) -> Built3 {
    let nd: usize = c.cells.iter().map(|cl| cl.faces.iter().map(Vec::len).sum::<usize>()).sum();
    let mut s = State::new(3, nd + 1 + extra_free, kinds);
    let mut origin = vec![usize::MAX; nd + 1 + extra_free];
    let mut d = 1u32;
    // (cell, u, v) -> dart
    let mut half: std::collections::BTreeMap<(usize, usize, usize), u32> = Default::default();
    // (u, v) sorted face key -> list of (cell, first dart, face)
    for (ci, cell) in c.cells.iter().enumerate() {
        for f in &cell.faces {
            let k = f.len() as u32;
            for (jx, &v) in f.iter().enumerate() {
                let me = d + jx as u32;
                let nx = d + ((jx as u32 + 1) % k);
                s.beta[me as usize][1] = nx;
                s.beta[nx as usize][0] = me;
                origin[me as usize] = v;
                half.insert((ci, v, f[(jx + 1) % f.len()]), me);
            }
            d += k;
        }
    }
    let mut partner = vec![0u32; nd + 1 + extra_free];
    for (&(ci, u, v), &a) in &half {
        if let Some(&b) = half.get(&(ci, v, u)) {
            s.beta[a as usize][2] = b;
        }
        for cj in 0..c.cells.len() {
            if cj != ci {
                if let Some(&b) = half.get(&(cj, v, u)) {
                    // same edge, opposite direction, other cell: glued only if the faces match
                    if faces_match(&s, &origin, a, b) {
                        partner[a as usize] = b;
                    }
                }
            }
        }
    }
    for a in 1..=nd as u32 {
        s.beta[a as usize][3] = partner[a as usize];
    }
    Built3 { state: s, origin, partner }
}

/// Do the faces of a (walked by beta1) and b (walked by beta0) carry mirrored point sequences?
fn faces_match(s: &State, origin: &[usize], a: u32, b: u32) -> bool {
    let fa = s.face_walk(a, true).fwd;
    let fb = s.face_walk(b, false).fwd;
    if fa.len() != fb.len() {
        return false;
    }
    // a: u->v ; b: v->u. Walking a forward visits origins u, v, w..; walking b backwards visits
    // darts whose *ends* are those points: origin(b1(x)).
    for (x, y) in fa.iter().zip(fb.iter()) {
        let end_y = origin[s.b(1, *y) as usize];
        if origin[*x as usize] != end_y {
            return false;
        }
    }
    true
}

/// Write coordinates (and attribute values) on the cells of the current topology.
pub fn embed(rng: &mut Rng, b: &mut Built3, pts: &[[f64; 3]], p_def: f64) {
    let part = b.state.partition(0);
    let mut decided = vec![false; b.state.n()];
    for d in 1..b.state.n() as u32 {
        let o = b.origin[d as usize];
        if o == usize::MAX || b.state.unused[d as usize] {
            continue;
        }
        let id = part[d as usize];
        if !decided[id as usize] {
            decided[id as usize] = true;
            if rng.chance(p_def) {
                b.state.vtx[id as usize] = Some(b3(pts[o]));
            }
        }
    }
}

pub fn rand_kinds_3d(rng: &mut Rng) -> KindMask {
    match rng.below(6) {
        0 => 0,
        1 => 1 << K_WV,
        2 => (1 << K_WV) | (1 << K_WE),
        3 => (1 << K_WV) | (1 << K_WE) | (1 << K_WF),
        4 => (1 << K_TV) | (1 << K_WE) | (1 << K_TF) | (1 << K_WF),
        _ => (1 << K_WV) | (1 << K_TV) | (1 << K_WE) | (1 << K_WF),
    }
}

/// Initial 3-map of a history.
pub fn gen_init_3d(rng: &mut Rng, flavour: Flavour, tier: Tier) -> State {
    let max_cells = if tier == Tier::Thorough && rng.chance(0.3) { 4 } else { 1 + rng.below(3) };
    let c = rand_complex(rng, max_cells);
    let kinds = match flavour {
        Flavour::Sews => {
            let k = rand_kinds_3d(rng);
            if k == 0 { 1 << K_WV } else { k }
        }
        Flavour::Alloc => (1 << K_WV) | (1 << K_WE) | (1 << K_WF),
        _ => rand_kinds_3d(rng),
    };
    let extra = rng.below(6);
    let mut b = state_from_complex(&c, kinds, extra);
    // unglue some faces
    let n = b.state.n() as u32;
    let p_unglue = [0.0, 0.5, 1.0][rng.below(3)];
    for d in 1..n {
        if b.state.b(3, d) != 0 && rng.chance(p_unglue / 4.0) {
            let _ = b.state.unlink(3, d);
        }
    }
    // unglue some 2-links (whole cells fall apart into faces)
    if rng.chance(0.3) {
        for d in 1..n {
            if b.state.b(2, d) != 0 && rng.chance(0.1) {
                let _ = b.state.unlink(2, d);
            }
        }
    }
    // open some faces (not for the data-placement flavour, whose statement wants closed faces)
    if flavour != Flavour::Sews && rng.chance(0.4) {
        for d in 1..n {
            if b.state.b(1, d) != 0 && rng.chance(0.05) {
                let _ = b.state.unlink(1, d);
            }
        }
    } else if flavour == Flavour::Sews && rng.chance(0.15) {
        let d = 1 + rng.below(n as usize - 1) as u32;
        if b.state.b(1, d) != 0 {
            let _ = b.state.unlink(1, d);
        }
    }
    let p_def = [0.5, 1.0, 1.0][rng.below(3)];
    embed(rng, &mut b, &c.pts, p_def);
    let keep = b.state.vtx.clone();
    fill_values(rng, &mut b.state);
    b.state.vtx = keep;
    debug_assert!(b.state.wf().is_ok(), "{:?}", b.state.wf());
    b.state
}

/// Pairs (l, r) of 3-free darts whose closed faces mirror each other geometrically (the
/// coordinates met walking l forwards equal those met walking r backwards): the arguments of
/// 3-sews that can succeed.
pub fn mirror_pairs(s: &State) -> Vec<(u32, u32)> {
    if s.dim != 3 {
        return vec![];
    }
    let part = s.partition(0);
    let coord = |d: u32| s.vtx[part[d as usize] as usize];
    let mut out = vec![];
    let n = s.n() as u32;
    for l in 1..n {
        if s.unused[l as usize] || s.b(3, l) != 0 {
            continue;
        }
        let fl = s.face_walk(l, true);
        if !fl.closed || fl.fwd.len() < 3 {
            continue;
        }
        for r in 1..n {
            if r == l || s.unused[r as usize] || s.b(3, r) != 0 {
                continue;
            }
            let fr = s.face_walk(r, false);
            if !fr.closed || fr.fwd.len() != fl.fwd.len() || fr.fwd.contains(&l) {
                continue;
            }
            let ok = fl.fwd.iter().zip(fr.fwd.iter()).all(|(&x, &y)| {
                let (cx, cy) = (coord(x), coord(s.b(1, y)));
                cx.is_some() && cx == cy
            });
            if ok {
                out.push((l, r));
            }
        }
    }
    out
}

/// Template "a face is closed, then 3-sewn": returns an initial state in which one face of a
/// mirror pair (l, r) is open at one place, the operation that closes it again and the 3-sew of
/// the pair. In sequence (or in either serial order where both succeed) the 3-sew must see the
/// closed face.
pub fn closing_then_three_sew(rng: &mut Rng, s: &State) -> Option<(State, crate::ops::Op, crate::ops::Op)> {
    let pairs = mirror_pairs(s);
    if pairs.is_empty() {
        return None;
    }
    // most of the time without user attribute kinds, whose weight laws reject merges of two
    // valueless cells and would make the sews fail for unrelated reasons
    let stripped;
    let s = if rng.chance(0.7) {
        let mut t = s.clone();
        t.kinds = 0;
        for a in t.attrs.iter_mut() {
            a.clear();
        }
        stripped = t;
        &stripped
    } else {
        s
    };
    let (l, r) = *rng.pick(&pairs);
    let side = if rng.chance(0.5) { l } else { r };
    let face = s.face_walk(side, true).fwd;
    let x = *rng.pick(&face);
    let y = s.b(1, x);
    let mut t = s.clone();
    // open the face at x -> y (keep all data where it is)
    t.beta[x as usize][1] = 0;
    t.beta[y as usize][0] = 0;
    // opening may split the vertex at y for the model; coordinates stay attached to old ids,
    // make sure both resulting vertex cells carry the coordinates so that sews can proceed
    let (p_old, p_new) = (s.partition(0), t.partition(0));
    for d in 1..t.n() as u32 {
        let (o, n) = (p_old[d as usize], p_new[d as usize]);
        if t.vtx[n as usize].is_none() {
            t.vtx[n as usize] = s.vtx[o as usize];
        }
    }
    let close = if rng.chance(0.7) { crate::ops::Op::Sew { i: 1, l: x, r: y } } else { crate::ops::Op::Link { i: 1, l: x, r: y } };
    let sew3 = if rng.chance(0.8) { crate::ops::Op::Sew { i: 3, l, r } } else { crate::ops::Op::Link { i: 3, l, r } };
    Some((t, close, sew3))
}
