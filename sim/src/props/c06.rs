//! C06 — a call that reports an error leaves the map exactly as it was (fault enumeration).
//!
//! For each sampled (state, call): the fault-free run records N, the number of user attribute
//! callbacks of the call; the pair is then re-run from an identically rebuilt state once per
//! k in 1..=N with the k-th callback failing (F1), optionally as a re-execution (F2 before it).
//! Whenever the call returns an error the full snapshot must equal the snapshot before it.

use std::collections::BTreeMap;
use std::sync::Arc;

use serde::{Deserialize, Serialize};
use serde_json::json;

use crate::anymap::{KindOrder, build_map};
use crate::exec::{Outcome, execute_serial};
use crate::faults;
use crate::gen2::*;
use crate::harness::*;
use crate::hist::Step;
use crate::ops::{Op, Runner, Tx, TxValue, run_tx};
use crate::prng::Rng;
use crate::props::hprops::{Flavour, gen_init, gen_step};
use crate::state::State;

#[derive(Clone, Debug, Serialize, Deserialize)]
pub struct Pair {
    pub init: State,
    pub order: KindOrder,
    /// calls applied first to reach the state (without faults)
    pub prefix: Vec<Step>,
    /// the call under test
    pub call: Tx,
}

#[derive(Clone, Debug, Serialize, Deserialize)]
pub struct Payload {
    pub pair: Pair,
    /// failing callback index (0 = no injected fault)
    pub k: u32,
    /// F2 before the failing attempt
    pub reexec: bool,
}

#[derive(Debug, Clone)]
pub struct KOut {
    pub k: u32,
    pub value_is_err: bool,
    pub err: String,
    pub changed: Option<String>,
    pub callbacks: u32,
    pub rejections: u32,
    pub wrote_before_error: bool,
    pub attempts: u32,
}

fn apply_prefix(map: &mut crate::anymap::AnyMap, prefix: &[Step]) {
    for st in prefix {
        match st {
            Step::Tx(tx) => {
                let _ = run_tx(map, tx);
            }
            Step::AddFreeDart => {
                map.add_free_dart();
            }
            Step::AddFreeDarts(n) => {
                map.add_free_darts(*n as usize);
            }
            Step::InsertFreeDart => {
                map.insert_free_dart();
            }
            Step::RemoveFreeDart(d) => {
                let n = map.n_darts() as u32;
                if *d != 0 && *d < n && !map.is_unused(*d) && (0..=map.dim()).all(|i| map.beta(i, *d) == 0) {
                    map.remove_free_dart(*d);
                }
            }
            Step::RemoveAnyDart(d) => {
                if *d != 0 && *d < map.n_darts() as u32 {
                    let _ = crate::hist::remove_catching(map, *d);
                }
            }
        }
    }
}

/// One run of the pair with the k-th callback failing. Must run inside an execution.
fn run_k(p: &Pair, k: u32, reexec: bool) -> KOut {
    let (mut map, _) = build_map(&p.init, &p.order);
    fast_stm::verif::set_sim_thread(1, vec![]);
    faults::reset_thread();
    apply_prefix(&mut map, &p.prefix);
    let kinds = p.init.kinds;
    let pre = map.snapshot(kinds);
    let pre_derived = map.derived();
    let mut call = p.call.clone();
    call.f1 = if k > 0 { vec![k] } else { vec![] };
    call.f2 = if reexec { vec![0] } else { vec![] };
    call.f1_attempt = if reexec { 2 } else { 0 };
    let commits_before = fast_stm::verif::stats().write_commits;
    let out = run_tx(&map, &call);
    let _ = commits_before;
    let post = map.snapshot(kinds);
    let (is_err, err) = match &out.value {
        TxValue::Ok(_) => (false, String::new()),
        TxValue::Err(_, e) => (true, e.clone()),
        TxValue::Abandoned => (true, "Abandoned".into()),
    };
    let post_derived = map.derived();
    let changed = if is_err && post != pre {
        Some(post.diff(&pre))
    } else if is_err && post_derived != pre_derived {
        Some(format!("the map's own counters (darts, removed darts, vertices) changed from {pre_derived:?} to {post_derived:?}"))
    } else {
        None
    };
    KOut { k, value_is_err: is_err, err, changed, callbacks: out.callbacks, rejections: out.rejections, wrote_before_error: is_err && k > 1, attempts: out.attempts }
}

/// All runs of one pair, in one execution: k = 0 first (learns N), then k = 1..=N.
fn enumerate_pair(p: &Pair, with_reexec: bool) -> Vec<KOut> {
    let base = run_k(p, 0, false);
    let n = base.callbacks;
    let mut outs = vec![base];
    for k in 1..=n.min(200) {
        outs.push(run_k(p, k, false));
        if with_reexec {
            outs.push(run_k(p, k, true));
        }
    }
    outs
}

fn op_name(op: &Op) -> String {
    let s = format!("{op:?}");
    let name: String = s.chars().take_while(|c| c.is_alphanumeric()).collect();
    match op {
        Op::Link { i, .. } | Op::Unlink { i, .. } | Op::Sew { i, .. } | Op::Unsew { i, .. } => format!("{name}{i}"),
        _ => name,
    }
}

pub fn gen_pair(rng: &mut Rng, tier: Tier) -> Pair {
    let kernel = rng.chance(0.45);
    let dim = if kernel || rng.chance(0.6) { 2 } else { 3 };
    let mut irng = rng.fork(1);
    let (init, call_op, prefix): (State, Op, Vec<Step>) = if kernel {
        let mut kinds = rand_kinds_kernels(&mut irng);
        if kinds == 0 || irng.chance(0.5) {
            kinds |= (1 << crate::attrs::K_WV) | (1 << crate::attrs::K_WE);
        }
        let which = irng.below(10);
        let triangles = matches!(which, 0..=3) || irng.chance(0.3);
        let init = kernel_state(&mut irng, kinds, triangles, 2);
        // a few kernel calls first, so that calls also meet meshes produced by other kernels
        let mut prefix = vec![];
        let mut cur = init.clone();
        let _ = &mut cur;
        for _ in 0..irng.below(3) {
            let w = irng_pick(&mut irng);
            if let Some(op) = kernel_op(&mut irng, &init, Some(w)) {
                prefix.push(Step::Tx(Tx { runner: Runner::WithErr, ops: vec![op], f1: vec![], f2: vec![], f1_attempt: 0 }));
            }
        }
        if irng.chance(0.6) {
            prefix.clear();
        }
        let op = kernel_op(&mut irng, &init, Some(which)).unwrap();
        (init, op, prefix)
    } else {
        let init = gen_init(&mut irng, dim, Flavour::Sews, tier);
        // state reached by a short history: generate the prefix against the model-free generator
        // (arguments drawn on the initial state; the oracle does not depend on their validity)
        let mut prefix = vec![];
        let mut uniq = 0u64;
        let n_prefix = irng.below(6);
        for i in 0..n_prefix {
            if let Some(st) = gen_step(&mut irng, i, &init, Flavour::Sews, n_prefix, &mut uniq) {
                let st = match st {
                    Step::Tx(mut t) => {
                        t.f1.clear();
                        t.f2.clear();
                        Step::Tx(t)
                    }
                    o => o,
                };
                prefix.push(st);
            }
        }
        let g = OpGen::new(&mut irng, &init, 3);
        let mut op = g.topo(&mut irng);
        if irng.chance(0.7) {
            op = match op {
                Op::Link { i, l, r } => Op::Sew { i, l, r },
                Op::Unlink { i, l } => Op::Unsew { i, l },
                o => o,
            };
        }
        // now and then one argument is a dart that has been removed: a call that fails must not
        // bring it back (flags are part of the state the statement lists)
        let (mut init, mut op) = (init, op);
        if irng.chance(0.15) {
            let free: Vec<u32> = (1..init.n() as u32).filter(|&d| init.is_free(d)).collect();
            if let Some(&d) = free.first() {
                init.unused[d as usize] = true;
                init.vtx[d as usize] = None;
                for a in init.attrs.iter_mut() {
                    if let Some(x) = a.get_mut(d as usize) {
                        *x = None;
                    }
                }
                let first = irng.chance(0.5);
                op = match op {
                    Op::Link { i, l, r } => if first { Op::Link { i, l: d, r } } else { Op::Link { i, l, r: d } },
                    Op::Sew { i, l, r } => if first { Op::Sew { i, l: d, r } } else { Op::Sew { i, l, r: d } },
                    Op::Unlink { i, .. } => Op::Unlink { i, l: d },
                    Op::Unsew { i, .. } => Op::Unsew { i, l: d },
                    o => o,
                };
            }
        }
        (init, op, prefix)
    };
    let order = rand_order(&mut irng, init.kinds);
    let runner = match rng.below(6) {
        0 | 1 => Runner::WithErr,
        2 => Runner::ControlRetry,
        3 => Runner::ControlAbortAfter(1 + rng.below(2) as u8),
        _ => {
            if crate::ops::has_force_form(&call_op) { Runner::Force } else { Runner::WithErr }
        }
    };
    Pair { init, order, prefix, call: Tx { runner, ops: vec![call_op], f1: vec![], f2: vec![], f1_attempt: 0 } }
}

fn irng_pick(rng: &mut Rng) -> usize {
    rng.below(10)
}

fn run_one(tier: Tier, i: u64, seed: u64, c: &mut Counters, known: &std::collections::BTreeSet<String>) -> Vec<Violation> {
    let mut rng = Rng::new(seed);
    let pair = Arc::new(gen_pair(&mut rng, tier));
    let with_reexec = rng.chance(0.3);
    let p2 = pair.clone();
    let r = execute_serial(move || enumerate_pair(&p2, with_reexec));
    c.inc("pairs");
    let name = op_name(&pair.call.ops[0]);
    let mut out = vec![];
    match r.outcome {
        Outcome::Done(outs) => {
            let n = outs[0].callbacks;
            c.add("runs", outs.len() as u64);
            c.inc(&format!("pairs_{name}"));
            c.max(&format!("max_N_{name}"), u64::from(n));
            c.add("callbacks_enumerated", u64::from(n));
            if n > 0 {
                c.inc("pairs_with_callbacks");
            }
            c.sample(|| json!({"seed": seed, "call": &pair.call, "N": n, "outcomes": outs.iter().map(|o| json!({"k": o.k, "err": o.err})).collect::<Vec<_>>(), "init_darts": pair.init.n(), "prefix": &pair.prefix}));
            for o in &outs {
                if o.value_is_err {
                    c.inc("errors_returned");
                    c.inc(&format!("errors_{name}"));
                    if o.k == 0 {
                        c.inc("errors_natural");
                    } else {
                        c.inc("errors_injected");
                        let pos = if o.k == 1 { "first" } else if o.k == n { "last" } else { "middle" };
                        c.inc(&format!("probe_f1_failure_at_{pos}_callback"));
                        if o.k > 1 {
                            c.inc("errors_after_successful_inner_update");
                        }
                    }
                    c.seen("error_cases", crate::prng::mix64(seed ^ u64::from(o.k)));
                } else if o.k > 0 && o.rejections > 0 {
                    c.inc("rejection_did_not_fail_call");
                }
                if o.attempts > 1 {
                    c.inc("probe_failing_body_was_a_reexecution");
                }
                if let Some(d) = &o.changed {
                    let class = format!("state-changed-by-failed-{name}");
                    if known.contains(&class) {
                        c.inc(&format!("known_hit_{class}"));
                        continue;
                    }
                    out.push(Violation {
                        property: "C06".into(),
                        class,
                        message: format!("{:?} with the {}-th attribute callback failing (k = {} of N = {n}, re-execution: {}) returned Err({}) but the map changed: {d}", pair.call, o.k, o.k, o.attempts > 1, o.err),
                        seed,
                        run: i,
                        payload: serde_json::to_value(Payload { pair: (*pair).clone(), k: o.k, reexec: o.attempts > 1 }).unwrap(),
                        known: None,
                    });
                    break;
                }
            }
        }
        Outcome::Panic(m) => {
            c.inc("pair_panics");
            c.inc(&format!("pair_panics_{name}"));
            c.note("pair_panics", || format!("seed {seed} call {:?}: {m}", pair.call));
        }
        _ => c.inc("pair_blocked"),
    }
    out
}

pub fn digest(n: u64) {
    let known = Default::default();
    digest_runs("C06", n, |i, seed, c| run_one(Tier::Quick, i, seed, c, &known));
}

pub fn check(tier: Tier) -> i32 {
    let n = scaled(match tier {
        Tier::Quick => 12_000,
        Tier::Thorough => 1_500_000,
    });
    let known = known_classifiers("C06");
    let known_set: std::collections::BTreeSet<String> = known.keys().cloned().collect();
    let (mut counters, mut viols, mut wall) = parallel_runs("C06", n, |i, seed, c| run_one(tier, i, seed, c, &known_set));
    // second leg: long single-client histories (2D and 3D, natural errors and F1/F2 faults at
    // seeded positions) with the same oracle after every failing call: reaches states that the
    // short prefixes of the enumeration leg do not
    let (hc, hv, hw, _) = crate::props::hprops::collect("C06", tier);
    let hist_err = hc.get("tx_err");
    counters.add("history_leg_histories", hc.get("histories"));
    counters.add("history_leg_failing_calls_checked", hist_err);
    counters.add("history_leg_steps", hc.get("steps"));
    counters.add("runs", hc.get("histories"));
    for h in hc.distinct.get("states").into_iter().flatten() {
        counters.seen("error_cases", *h ^ 0x5a5a);
    }
    viols.extend(hv);
    wall += hw;
    let rep = Report {
        property: "C06".into(),
        tier,
        level: "fault_enumeration",
        wall_s: wall,
        evaluations: counters.get("runs"),
        distinct_nontrivial: counters.n_distinct("error_cases"),
        rule: "one evaluation = one run of a sampled (state, call) pair with the k-th user attribute callback failing; per pair k ranges over 0 (no injection) and every 1..=N where N is the callback count of the fault-free run (exhaustive per pair), optionally with a forced re-execution before the failing attempt; distinct_nontrivial = distinct (pair, k) whose call returned an error, i.e. cases in which the unchanged-state oracle was actually evaluated".into(),
        assumptions: vec![
            "pairs (state, call) are sampled; the failure index k is enumerated exhaustively per pair".into(),
            "kernels are run as the single operation of their own transaction (the reading of 'returns an error' that the STM can honour)".into(),
            "equality is bitwise on the full snapshot: all images of all darts incl. the null dart, removal flags, coordinates and every registered attribute at every identifier".into(),
        ],
        extra: json!({"faults": {"F1_attr_fail": {"enumerated_positions": counters.get("callbacks_enumerated"), "errors_injected": counters.get("errors_injected")},
                                 "F2_forced_revalidation": {"failing_body_was_reexecution": counters.get("probe_failing_body_was_a_reexecution")}}}),
        counters,
        exhaustive: false,
    };
    let mut hits: BTreeMap<String, (KnownFinding, u64)> = BTreeMap::new();
    let mut real = run_stored_replays("C06", &|v| replay_reproduces(v), &mut hits);
    for (cls, k) in &known {
        let n = rep.counters.get(&format!("known_hit_{cls}"));
        if n > 0 {
            hits.entry(cls.clone()).or_insert((k.clone(), 0)).1 += n;
        }
    }
    let mut seen = std::collections::BTreeSet::new();
    for v in viols {
        if seen.insert(v.class.clone()) {
            real.push(minimise(v));
        }
    }
    conclude(&rep, real, &hits)
}

fn reproduces(p: &Payload) -> Option<String> {
    let p2 = p.clone();
    let r = execute_serial(move || run_k(&p2.pair, p2.k, p2.reexec));
    match r.outcome {
        Outcome::Done(o) => o.changed.map(|d| format!("{:?} (k = {}) returned Err({}) but the map changed: {d}", p.pair.call, p.k, o.err)),
        _ => None,
    }
}

fn minimise(mut v: Violation) -> Violation {
    if v.payload.get("history").is_some() {
        return crate::props::hprops::minimise(v);
    }
    let Ok(mut p) = serde_json::from_value::<Payload>(v.payload.clone()) else { return v };
    // drop prefix steps while the violation persists
    let mut k = 0;
    while k < p.pair.prefix.len() {
        let mut q = p.clone();
        q.pair.prefix.remove(k);
        if reproduces(&q).is_some() {
            p = q;
        } else {
            k += 1;
        }
    }
    if p.reexec {
        let mut q = p.clone();
        q.reexec = false;
        if reproduces(&q).is_some() {
            p = q;
        }
    }
    if let Some(m) = reproduces(&p) {
        v.message = m;
        v.payload = serde_json::to_value(&p).unwrap();
    }
    v
}

pub fn replay_reproduces(v: &Violation) -> bool {
    if v.payload.get("history").is_some() {
        return crate::props::hprops::replay_reproduces(v);
    }
    serde_json::from_value::<Payload>(v.payload.clone()).ok().and_then(|p| reproduces(&p)).is_some()
}

pub fn replay(v: &Violation) -> i32 {
    if v.payload.get("history").is_some() {
        return crate::props::hprops::replay(v);
    }
    let Ok(p) = serde_json::from_value::<Payload>(v.payload.clone()) else {
        eprintln!("HARNESS-ERROR bad C06 payload");
        return 2;
    };
    match reproduces(&p) {
        Some(m) => {
            println!("REPRODUCED property=C06 class={}: {m}", v.class);
            1
        }
        None => {
            println!("not reproduced");
            0
        }
    }
}
