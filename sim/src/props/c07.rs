//! C07 — concurrent transactions on one map are serialisable and never crash.
//!
//! Seeded schedule search over 2–4 simulated threads running the real honeycomb code on the
//! instrumented STM. Oracles: no panic / deadlock / bounded termination, and final state plus
//! committed return values equal to some serial order (commit-order replay first, exhaustive
//! order search before any alarm).

use std::collections::BTreeMap;
use std::sync::Arc;

use serde::{Deserialize, Serialize};
use serde_json::json;

use crate::conc::*;
use crate::exec::Outcome;
use crate::gen2::*;
use crate::harness::*;
use crate::prng::Rng;
use crate::sched::{SchedKind, SchedSpec};

pub const MAX_STEPS: usize = 120_000;
pub const FAIR_AFTER: u32 = 30_000;
pub const ORDER_LIMIT: usize = 5040;
pub const SURVEY_BUDGET: usize = 20_000;

#[derive(Clone, Debug, Serialize, Deserialize)]
pub struct Payload {
    pub family: String,
    pub scenario: Scenario,
    pub sched: SchedSpec,
}

#[derive(Debug)]
pub enum Verdict {
    /// serialisable; `searched` when the commit-order replay did not match but another order did
    Pass { searched: bool },
    Inconclusive(&'static str),
    /// scenario is ill-formed (a serial order shows the same crash): not an alarm
    Discard(String),
    Violation { class: &'static str, message: String },
}

pub struct RunInfo {
    pub verdict: Verdict,
    pub sched: crate::sched::SchedOut,
    pub stm: fast_stm::verif::Stats,
    pub fin_hash: u64,
    pub committed: usize,
    pub n_tx: usize,
    pub build_tries: u32,
    pub f1_fired: u64,
}

/// Run one (scenario, schedule) pair and judge it.
pub fn eval_run(scn: &Arc<Scenario>, spec: &SchedSpec) -> RunInfo {
    let (r, progress) = run_concurrent_with_progress(scn.clone(), spec.clone(), MAX_STEPS);
    let mut info = RunInfo { verdict: Verdict::Pass { searched: false }, sched: r.sched, stm: r.stm, fin_hash: 0, committed: 0, n_tx: scn.n_tx(), build_tries: 0, f1_fired: 0 };
    info.verdict = match r.outcome {
        Outcome::Done(c) => {
            info.fin_hash = c.fin.hash64();
            info.committed = committed_set(&c.outs).len();
            info.build_tries = c.build_tries;
            for (th, os) in c.outs.iter().enumerate() {
                for (i, o) in os.iter().enumerate() {
                    if o.rejections > 0 && !scn.threads[th][i].f1.is_empty() {
                        info.f1_fired += 1;
                    }
                }
            }
            if c.fast_match {
                Verdict::Pass { searched: false }
            } else {
                match search_serial_order(scn, &c, ORDER_LIMIT) {
                    Ok(_) => Verdict::Pass { searched: true },
                    Err(e) => {
                        let per_thread: Vec<Vec<usize>> = c.outs.iter().map(|os| os.iter().enumerate().filter(|(_, o)| o.committed()).map(|(i, _)| i).collect()).collect();
                        if count_interleavings(&per_thread) > ORDER_LIMIT as f64 {
                            Verdict::Inconclusive("too many serial orders to enumerate")
                        } else {
                            Verdict::Violation {
                                class: "not-serialisable",
                                message: format!("{} committed transaction(s); {e}; commit-order replay: {}", info.committed, c.fast_detail),
                            }
                        }
                    }
                }
            }
        }
        Outcome::Panic(msg) => match serial_explains(scn, Symptom::Panics, SURVEY_BUDGET) {
            (Some(true), _, why) => Verdict::Discard(why.unwrap_or_default()),
            (None, n, _) => {
                let _ = n;
                Verdict::Inconclusive("panic: too many serial executions to rule out a sequential explanation")
            }
            (Some(false), n, _) => Verdict::Violation { class: "panic", message: format!("a thread panicked under this schedule although none of {n} serial executions (every order of every subset of the transactions) panics: {msg}") },
        },
        Outcome::Deadlock(msg) => match unexplained_block(scn, &progress) {
            Some(why) => Verdict::Violation { class: "deadlock", message: format!("all threads blocked ({msg}); {why}") },
            None => Verdict::Discard("every blocked transaction also blocks when run alone after the committed ones".into()),
        },
        Outcome::Livelock => match unexplained_block(scn, &progress) {
            Some(why) => Verdict::Violation { class: "non-termination", message: format!("a transaction attempt looped without ever reaching commit (more than {} transactional accesses); {why}", fast_stm::verif::OP_BOUND) },
            None => Verdict::Discard("the looping transaction also fails to complete when run alone after the committed ones".into()),
        },
        Outcome::StepBound => {
            // a single unfinished thread running alone is under a fair schedule by definition
            let unfinished = scn.threads.iter().enumerate().filter(|(t, txs)| progress.iter().filter(|(pt, _, _)| pt == t).count() < txs.len()).count();
            if info.sched.turned_fair || unfinished == 1 {
                match unexplained_block(scn, &progress) {
                    Some(why) => Verdict::Violation { class: "non-termination", message: format!("no termination within {MAX_STEPS} steps, of which the last ran fault-free under a fair schedule; {why}") },
                    None => Verdict::Discard("every unfinished transaction also blocks when run alone after the committed ones".into()),
                }
            } else {
                Verdict::Inconclusive("step bound before the fair phase")
            }
        }
    };
    info
}

// ------------------------------------------------------------------------------- generation

pub fn draw_sched(rng: &mut Rng, n_threads: usize, est_len: u32) -> SchedSpec {
    draw_sched_with(rng, n_threads, est_len, &[])
}

/// `per_task`: multi-candidate decisions won by each task in a first (uniform) run of the same
/// scenario, the yardstick for the hand-off point.
pub fn draw_sched_with(rng: &mut Rng, n_threads: usize, est_len: u32, per_task: &[u32]) -> SchedSpec {
    let kind = match rng.below(12) {
        0..=2 => SchedKind::Uniform,
        3 => SchedKind::Bursty(500),
        4 => SchedKind::Bursty(900),
        5 => SchedKind::Bursty(980),
        6..=7 => SchedKind::Pct { depth: 1 + rng.below(3) as u8, est_len: est_len.max(8) },
        8 => SchedKind::Stall { victim: 1 + rng.below(n_threads) as u8, start: rng.below(est_len.max(2) as usize) as u32, len: 5 + rng.below(200) as u32 },
        9 => SchedKind::Uniform,
        _ => {
            let first = 1 + rng.below(n_threads);
            let own = per_task.get(first).copied().unwrap_or(est_len / n_threads.max(1) as u32).max(2);
            // (a third of the time right after the thread's start: reads made before the first
            // transactional access of a body have the narrowest windows)
            let after = if rng.chance(0.33) { rng.below(12) } else { rng.below(own as usize + 2) };
            SchedKind::Handoff { first: first as u8, after: after as u32 }
        }
    };
    let seed = rng.next();
    let early_wake_pm = if rng.chance(0.3) { 50 + rng.below(300) as u16 } else { 0 };
    // half of the schedules follow the plain-read probe of the instrumented STM
    let steer_pm = if rng.chance(0.5) { [300, 600, 1000][rng.below(3)] } else { 0 };
    SchedSpec { kind, seed, early_wake_pm, fair_after: FAIR_AFTER, replay: None, steer_pm }
}

pub fn sched_name(k: &SchedKind) -> String {
    match k {
        SchedKind::Uniform => "uniform".into(),
        SchedKind::Bursty(p) => format!("bursty{p}"),
        SchedKind::Pct { depth, .. } => format!("pct{depth}"),
        SchedKind::Stall { .. } => "stall".into(),
        SchedKind::Fair => "fair".into(),
        SchedKind::Handoff { .. } => "handoff".into(),
    }
}

/// S1: core 2D operations on a small random or structured map.
pub fn gen_s1(rng: &mut Rng) -> Scenario {
    let kinds = rand_kinds_2d(rng);
    let init = if rng.chance(0.25) {
        let (nx, ny) = (1 + rng.below(2), 1 + rng.below(2));
        let split = rng.chance(0.5);
        let mesh = grid_mesh(rng, nx, ny, split, 0.2);
        let extra = rng.below(4);
        let (mut s, _) = state_from_mesh(&mesh, kinds, extra);
        let keep_vtx = s.vtx.clone();
        fill_values(rng, &mut s);
        s.vtx = keep_vtx;
        s
    } else {
        let n = 4 + rng.below(11);
        random_state_2d(rng, n, kinds)
    };
    let order = rand_order(rng, kinds);
    let n_threads = 2 + [0, 0, 0, 1, 1, 2][rng.below(6)];
    let g = OpGen::new(rng, &init, 2);
    let mut uniq = 0u64;
    let mut budget = 7usize;
    let mut threads = vec![];
    for t in 0..n_threads {
        let remaining_threads = n_threads - t;
        let max_here = (budget - (remaining_threads - 1)).min(3);
        let n_tx = 1 + rng.below(max_here);
        budget -= n_tx;
        let p_topo = [0.3, 0.6, 0.9][rng.below(3)];
        let txs: Vec<_> = (0..n_tx)
            .map(|_| {
                let mut tx = rand_tx(rng, &g, 4, &mut uniq, p_topo);
                if init.kinds != 0 && rng.chance(0.15) {
                    tx.f1 = vec![1 + rng.below(4) as u32];
                }
                tx
            })
            .collect();
        threads.push(txs);
    }
    let f2 = (0..n_threads)
        .map(|_| if rng.chance(0.3) { (0..1 + rng.below(2)).map(|_| rng.below(4) as u32).collect() } else { vec![] })
        .collect();
    Scenario { init, order, threads, f2, pre: vec![] }
}

/// S2: core 3D operations on a polyhedral complex, incl. the template "one thread closes a
/// face while another 3-sews it".
pub fn gen_s2(rng: &mut Rng) -> Scenario {
    use crate::props::hprops::Flavour;
    let fl = if rng.chance(0.5) { Flavour::Sews } else { Flavour::Edits };
    let init0 = crate::gen3::gen_init_3d(rng, fl, Tier::Quick);
    let order = rand_order(rng, init0.kinds);
    if rng.chance(0.35) {
        if let Some((t, close, sew3)) = crate::gen3::closing_then_three_sew(rng, &init0) {
            let mk = |rng: &mut Rng, op: crate::ops::Op| {
                let runner = if rng.chance(0.5) { crate::ops::Runner::Force } else { crate::ops::Runner::WithErr };
                crate::ops::Tx { runner, ops: vec![op], f1: vec![], f2: vec![], f1_attempt: 0 }
            };
            let mut threads = vec![vec![mk(rng, close)], vec![mk(rng, sew3)]];
            if rng.chance(0.3) {
                let g = OpGen::new(rng, &t, 2);
                let mut u = 0;
                threads.push(vec![rand_tx(rng, &g, 2, &mut u, 0.3)]);
            }
            return Scenario { init: t, order, threads, f2: vec![], pre: vec![] };
        }
    }
    let init = init0;
    let n_threads = 2 + [0, 0, 1][rng.below(3)];
    let g = OpGen::new(rng, &init, 2);
    let mut uniq = 0u64;
    let mut budget = 6usize;
    let mut threads = vec![];
    for t in 0..n_threads {
        let remaining = n_threads - t;
        let max_here = (budget - (remaining - 1)).min(3);
        let n_tx = 1 + rng.below(max_here);
        budget -= n_tx;
        let p_topo = [0.4, 0.7, 0.9][rng.below(3)];
        threads.push((0..n_tx).map(|_| {
            let mut tx = rand_tx(rng, &g, 3, &mut uniq, p_topo);
            if init.kinds != 0 && rng.chance(0.12) {
                tx.f1 = vec![1 + rng.below(5) as u32];
            }
            tx
        }).collect());
    }
    let f2 = (0..n_threads).map(|_| if rng.chance(0.3) { vec![rng.below(4) as u32] } else { vec![] }).collect();
    Scenario { init, order, threads, f2, pre: vec![] }
}

/// S3: remeshing / insertion / triangulation kernels on adjacent cells of a small mesh, in the
/// runner forms of the benches.
pub fn gen_s3(rng: &mut Rng) -> Scenario {
    use crate::ops::{Op, Runner, Tx};
    let kinds = rand_kinds_kernels(rng);
    let tri = rng.chance(0.75);
    let init = kernel_state(rng, kinds, tri, 2);
    let order = rand_order(rng, init.kinds);
    let n_threads = 2 + [0, 0, 1, 2][rng.below(4)];
    let mut pool = free_pool(&init);
    let disjoint = rng.chance(0.8);
    let mut budget = 7usize;
    let mut threads = vec![];
    for t in 0..n_threads {
        let remaining = n_threads - t;
        let max_here = (budget - (remaining - 1)).min(3);
        let n_tx = 1 + rng.below(max_here);
        budget -= n_tx;
        let mut txs = vec![];
        for _ in 0..n_tx {
            let which = if tri { [0, 0, 1, 1, 2, 3, 3, 4, 10, 10][rng.below(10)] } else { [4, 5, 6, 7, 8, 9, 10][rng.below(7)] };
            let Some(op) = kernel_op_with_pool(rng, &init, Some(which), &mut pool, disjoint) else { continue };
            let runner = match (&op, rng.below(6)) {
                (Op::MoveToAverage { .. }, _) => Runner::Atomically,
                (_, 0 | 1) => Runner::WithErr,
                (_, 2 | 3) => Runner::ControlRetry,
                (_, 4) => Runner::RetryLoop(2),
                _ => Runner::ControlAbortAfter(1 + rng.below(2) as u8),
            };
            let mut tx = Tx { runner, ops: vec![op], f1: vec![], f2: vec![], f1_attempt: 0 };
            if runner != Runner::Atomically && rng.chance(0.1) && (init.kinds & 0x3f) != 0 {
                tx.f1 = vec![1 + rng.below(8) as u32];
            }
            txs.push(tx);
        }
        if txs.is_empty() {
            txs.push(Tx { runner: Runner::WithErr, ops: vec![Op::Beta { i: 1, d: 1 }], f1: vec![], f2: vec![], f1_attempt: 0 });
        }
        threads.push(txs);
    }
    let f2 = (0..n_threads).map(|_| if rng.chance(0.3) { vec![rng.below(3) as u32] } else { vec![] }).collect();
    Scenario { init, order, threads, f2, pre: vec![] }
}

/// S5: the parallel shift of examples/parallel_shift.rs / benches/src/shift.rs: every interior
/// vertex is moved to the average of its neighbours (neighbour lists precomputed as there),
/// work statically partitioned over the simulated threads, 1-2 rounds.
pub fn gen_s5(rng: &mut Rng) -> Scenario {
    use crate::ops::{Op, Runner, Tx};
    use crate::state::Policy;
    let (nx, ny) = (2 + rng.below(2), 2 + rng.below(2));
    let mesh = grid_mesh(rng, nx, ny, true, 0.3);
    let (init, _) = state_from_mesh(&mesh, 0, 0);
    let pv = init.partition(0);
    let mut nodes: Vec<(u32, Vec<u32>)> = vec![];
    for v in 1..init.n() as u32 {
        if pv[v as usize] != v {
            continue;
        }
        let orb = init.orbit(Policy::Vertex, v);
        if orb.iter().any(|&d| init.b(2, d) == 0) {
            continue;
        }
        nodes.push((v, orb.iter().map(|&d| pv[init.b(2, d) as usize]).collect()));
    }
    let n_threads = 2 + rng.below(2);
    let rounds = 1 + rng.below(2);
    let mut threads: Vec<Vec<Tx>> = vec![vec![]; n_threads];
    for _ in 0..rounds {
        for (k, (vid, others)) in nodes.iter().enumerate() {
            threads[k % n_threads].push(Tx { runner: Runner::Atomically, ops: vec![Op::MoveToAverage { vid: *vid, others: others.clone() }], f1: vec![], f2: vec![], f1_attempt: 0 });
        }
    }
    threads.retain(|t| !t.is_empty());
    while threads.len() < 2 {
        threads.push(vec![Tx { runner: Runner::Atomically, ops: vec![Op::ReadV { id: 1 }], f1: vec![], f2: vec![], f1_attempt: 0 }]);
    }
    let nt = threads.len();
    Scenario { init, order: [vec![], vec![], vec![]], threads, f2: (0..nt).map(|_| if rng.chance(0.3) { vec![rng.below(3) as u32] } else { vec![] }).collect(), pre: vec![] }
}

/// Every topology edit that is valid on the model state and involves dart `x` (as the dart
/// itself or as the second argument).
pub fn edits_involving(s: &crate::state::State, x: u32, in_use: &[u32]) -> Vec<crate::ops::Op> {
    use crate::ops::Op;
    let mut out = vec![];
    for i in 1..=s.dim {
        if s.b(i, x) != 0 {
            out.push(Op::Unsew { i, l: x });
            out.push(Op::Unlink { i, l: x });
        } else {
            for &r in in_use {
                let free_r = if i == 1 { s.b(0, r) == 0 } else { s.b(i, r) == 0 && r != x };
                if free_r && (i != 3) {
                    out.push(Op::Sew { i, l: x, r });
                    if out.len() % 3 == 0 {
                        out.push(Op::Link { i, l: x, r });
                    }
                }
            }
        }
        // x as the right-hand argument
        let free_x = if i == 1 { s.b(0, x) == 0 } else { s.b(i, x) == 0 };
        if free_x && i != 3 {
            for &l in in_use {
                if s.b(i, l) == 0 && (i == 1 || l != x) {
                    out.push(Op::Sew { i, l, r: x });
                }
            }
        }
    }
    out
}

/// S1b / S2b: two (or three) threads, one single-operation transaction each, all operations
/// valid on the initial state and involving the same dart or its neighbours, on a fully
/// embedded map: maximal density of conflicting read and write sets.
pub fn gen_pair_conflict(rng: &mut Rng) -> Scenario {
    use crate::ops::{Op, Runner, Tx};
    use crate::props::hprops::Flavour;
    let force_t = std::env::var("VERIF_C07_TEMPLATE").is_ok();
    let dim3 = rng.chance(0.4) || force_t;
    let want_template = dim3 && (rng.chance(0.5) || force_t);
    let mut init = if dim3 {
        // the template below needs two faces that can be 3-sewn or are 3-sewn: a few draws
        let mut s = crate::gen3::gen_init_3d(rng, Flavour::Sews, Tier::Quick);
        for _ in 0..8 {
            let usable = !crate::gen3::mirror_pairs(&s).is_empty() || (1..s.n() as u32).any(|d| !s.unused[d as usize] && s.b(3, d) != 0);
            if !want_template || usable {
                break;
            }
            s = crate::gen3::gen_init_3d(rng, Flavour::Sews, Tier::Quick);
        }
        s
    } else {
        let kinds = if rng.chance(0.5) { 0 } else { rand_kinds_2d(rng) };
        let n = 4 + rng.below(9);
        random_state_2d(rng, n, kinds)
    };
    if rng.chance(0.85) {
        let pv = init.partition(0);
        for d in 1..init.n() as u32 {
            if !init.unused[d as usize] && pv[d as usize] == d && init.vtx[d as usize].is_none() {
                init.vtx[d as usize] = Some(rand_point(rng, init.dim));
            }
        }
    }
    let order = rand_order(rng, init.kinds);
    let in_use: Vec<u32> = (1..init.n() as u32).filter(|&d| !init.unused[d as usize]).collect();
    if want_template {
        // a 3-sew of two mirror faces next to user blocks on darts of those faces
        let pairs = crate::gen3::mirror_pairs(&init);
        // ... or, on a complex whose faces are all glued already, the 3-unsew of a glued pair
        let glued: Vec<u32> = in_use.iter().copied().filter(|&d| init.b(3, d) != 0 && init.face_walk(d, true).closed).collect();
        if !pairs.is_empty() || !glued.is_empty() {
            let unsew = pairs.is_empty() || (!glued.is_empty() && rng.chance(0.4));
            let (l, r) = if unsew {
                let l = *rng.pick(&glued);
                (l, init.b(3, l))
            } else {
                *rng.pick(&pairs)
            };
            let the_op = if unsew { Op::Unsew { i: 3, l } } else { Op::Sew { i: 3, l, r } };
            if rng.chance(0.7) {
                // one face-bound kind with a value on every face, so that the 3-sew's face
                // merge succeeds and user blocks have something to collide with
                let k = if rng.chance(0.5) { crate::attrs::K_TF } else { crate::attrs::K_WF };
                init.kinds = 1 << k;
                let n = init.n();
                for (kk, a) in init.attrs.iter_mut().enumerate() {
                    *a = if kk == k { vec![None; n] } else { vec![] };
                }
                let pf = init.partition(2);
                let mut pow = 0u32;
                for d in 1..n as u32 {
                    if !init.unused[d as usize] && pf[d as usize] == d {
                        pow = (pow + 1) % 38;
                        init.attrs[k][d as usize] = Some(if k == crate::attrs::K_TF { 0 } else { 1u64 << pow });
                    }
                }
            }
            let order = rand_order(rng, init.kinds);
            let mut threads = vec![vec![Tx { runner: if rng.chance(0.5) { Runner::Force } else { Runner::WithErr }, ops: vec![the_op], f1: vec![], f2: vec![], f1_attempt: 0 }]];
            let mut face: Vec<u32> = init.face_walk(l, true).fwd;
            face.extend(init.face_walk(r, true).fwd);
            let kinds_here = crate::attrs::mask_kinds(init.kinds);
            if rng.chance(0.35) {
                // a transaction that rewires the beta1 cycle of one of the two faces: it bypasses
                // one dart (which becomes isolated), so a concurrent walk of the face that mixes
                // old and new images may never come back to its start
                let side = if rng.chance(0.5) { l } else { r };
                let f = init.face_walk(side, true).fwd;
                if f.len() >= 3 {
                    let k = if rng.chance(0.6) { 0 } else { rng.below(f.len()) };
                    let (prev, cur, next) = (f[(k + f.len() - 1) % f.len()], f[k], f[(k + 1) % f.len()]);
                    let ops = vec![Op::Unlink { i: 1, l: prev }, Op::Unlink { i: 1, l: cur }, Op::Link { i: 1, l: prev, r: next }];
                    threads.push(vec![Tx { runner: Runner::WithErr, ops, f1: vec![], f2: vec![], f1_attempt: 0 }]);
                }
            }
            for _ in 0..1 + usize::from(rng.chance(0.3)) {
                let d = *rng.pick(&face);
                let op = match rng.below(4) {
                    0 | 1 if !kinds_here.is_empty() => {
                        let k = *rng.pick(&kinds_here);
                        Op::WriteACell { k: k as u8, d, v: if crate::attrs::kind_is_tag(k) { 1 } else { 1 << 22 } }
                    }
                    2 => Op::WriteVCell { d, v: crate::state::b3([12.5, -7.0, 3.25 + d as f64]) },
                    _ => Op::CellId { okind: 2, d },
                };
                threads.push(vec![Tx { runner: Runner::WithErr, ops: vec![op], f1: vec![], f2: vec![], f1_attempt: 0 }]);
            }
            if force_t {
                eprintln!("TEMPLATE threads {:?}", threads.iter().map(|t| t.iter().map(|x| format!("{:?}", x.ops)).collect::<Vec<_>>()).collect::<Vec<_>>());
            }
            return Scenario { init, order, threads, f2: vec![], pre: vec![] };
        }
    }
    if force_t {
        eprintln!("TEMPLATE none (no mirror pairs)");
    }
    if rng.chance(0.07) {
        // two or three threads retire the same free dart (what kernels removing shared darts
        // and the sweep of benches/cut_edges boil down to): exactly one of them may be told
        // that the dart was still in use
        let free: Vec<u32> = in_use.iter().copied().filter(|&d| init.is_free(d)).collect();
        if !free.is_empty() {
            let d = *rng.pick(&free);
            let n_threads = 2 + usize::from(rng.chance(0.3));
            let mut threads = vec![];
            for t in 0..n_threads {
                let mut ops = vec![Op::RemoveDartTx { d }];
                if rng.chance(0.4) {
                    let y = *rng.pick(&in_use);
                    let extra = if rng.chance(0.5) { Op::WriteV { id: y, v: crate::state::b3([5.0 + t as f64, 0.25, 0.0]) } } else { Op::Beta { i: 1, d: y } };
                    if rng.chance(0.5) { ops.push(extra) } else { ops.insert(0, extra) }
                }
                let runner = if rng.chance(0.3) { Runner::ControlRetry } else { Runner::WithErr };
                threads.push(vec![Tx { runner, ops, f1: vec![], f2: vec![], f1_attempt: 0 }]);
            }
            return Scenario { init, order, threads, f2: vec![], pre: vec![] };
        }
    }
    let x = *rng.pick(&in_use);
    // the dart and its neighbourhood
    let mut hood = vec![x];
    for i in 0..=init.dim {
        let e = init.b(i, x);
        if e != 0 && !hood.contains(&e) {
            hood.push(e);
        }
    }
    let n_threads = 2 + usize::from(rng.chance(0.25));
    let mut threads = vec![];
    let mut used: Vec<Op> = vec![];
    for t in 0..n_threads {
        let y = if t == 0 { x } else { *rng.pick(&hood) };
        if t > 0 && rng.chance(0.25) {
            // a user block: compute a cell id, then write data under it
            let kinds_here = crate::attrs::mask_kinds(init.kinds);
            let op = if !kinds_here.is_empty() && rng.chance(0.6) {
                let k = *rng.pick(&kinds_here);
                Op::WriteACell { k: k as u8, d: y, v: if crate::attrs::kind_is_tag(k) { 2 } else { 1 << 21 } }
            } else {
                Op::WriteVCell { d: y, v: crate::state::b3([-55.0, 8.25 + y as f64, 0.0]) }
            };
            threads.push(vec![Tx { runner: Runner::WithErr, ops: vec![op], f1: vec![], f2: vec![], f1_attempt: 0 }]);
            continue;
        }
        let mut cands = edits_involving(&init, y, &in_use);
        cands.retain(|o| !used.contains(o));
        let op = if cands.is_empty() {
            let g = OpGen::new(rng, &init, 1);
            g.topo(rng)
        } else {
            cands.swap_remove(rng.below(cands.len()))
        };
        used.push(op.clone());
        let runner = match rng.below(4) {
            0 => Runner::Force,
            1 => Runner::ControlRetry,
            _ => Runner::WithErr,
        };
        let mut ops = vec![op];
        if rng.chance(0.3) {
            // the transaction also returns what it sees of the neighbourhood
            let d = *rng.pick(&hood);
            let kinds_here = crate::attrs::mask_kinds(init.kinds);
            let extra = match rng.below(6) {
                0 => Op::CellId { okind: rng.below(init.dim as usize + 1) as u8, d },
                1 => Op::ReadVCell { d },
                2 => Op::WriteVCell { d, v: crate::state::b3([77.0 + d as f64, -3.5, 0.0]) },
                3 | 4 if !kinds_here.is_empty() => {
                    let k = *rng.pick(&kinds_here);
                    Op::WriteACell { k: k as u8, d, v: if crate::attrs::kind_is_tag(k) { 1 } else { 1 << 20 } }
                }
                _ => Op::Audit { kinds: init.kinds, data: true },
            };
            if rng.chance(0.5) { ops.push(extra) } else { ops.insert(0, extra) }
        }
        let runner = if ops.len() > 1 && runner == Runner::Force { Runner::WithErr } else { runner };
        threads.push(vec![Tx { runner, ops, f1: vec![], f2: vec![], f1_attempt: 0 }]);
    }
    Scenario { init, order, threads, f2: vec![], pre: vec![] }
}

/// S6: a kernel blocks in `retry()` until another thread writes what it is waiting for (an edge
/// cut whose end point has no coordinates yet); exercises park / unpark, early wake-ups (F3) and
/// the lost-wake-up oracle.
pub fn gen_s6(rng: &mut Rng) -> Scenario {
    use crate::ops::{Op, Runner, Tx};
    let kinds = if rng.chance(0.7) { 0 } else { (1 << crate::attrs::K_VA) | (1 << crate::attrs::K_EA) | (1 << crate::attrs::K_FA) };
    let mut init = kernel_state(rng, kinds, true, 2);
    let pv = init.partition(0);
    for d in 1..init.n() {
        if init.vtx[d].is_none() && !init.is_free(d as u32) && pv[d] == d as u32 {
            init.vtx[d] = Some(crate::state::b3([d as f64 * 0.37 + 11.0, 7.0 - d as f64 * 0.11, 0.0]));
        }
    }
    let order = rand_order(rng, init.kinds);
    let linked: Vec<u32> = (1..init.n() as u32).filter(|&d| !init.is_free(d)).collect();
    let mut pool = free_pool(&init);
    let e = *rng.pick(&linked);
    let pe = init.partition(1);
    let e = pe[e as usize];
    // the waited-for vertex: an end point of e — or, for a collapse, a vertex of the ring around
    // an end point, so that the kernel gets as far as its final orientation check before it waits
    let (a, b) = (pv[e as usize], pv[init.b(1, e) as usize]);
    let ring: Vec<u32> = [a, b]
        .iter()
        .flat_map(|&c| init.orbit(crate::state::Policy::Vertex, c))
        .map(|x| pv[init.b(1, x) as usize])
        .filter(|&y| y != 0 && y != a && y != b)
        .collect();
    let collapse_variant = !ring.is_empty() && rng.chance(0.35);
    let v = if collapse_variant { *rng.pick(&ring) } else if rng.chance(0.5) { a } else { b };
    let value = init.vtx[v as usize].take().unwrap();
    let mk_cut = |rng: &mut Rng, init: &crate::state::State, pool: &mut Vec<u32>, e: u32| -> Op {
        rng.shuffle(pool);
        if init.b(2, e) == 0 {
            let nd: Vec<u32> = pool.drain(..3.min(pool.len())).collect();
            Op::CutOuter { e, nd: [nd[0], nd[1], nd[2]] }
        } else {
            let nd: Vec<u32> = pool.drain(..6.min(pool.len())).collect();
            Op::CutInner { e, nd: [nd[0], nd[1], nd[2], nd[3], nd[4], nd[5]] }
        }
    };
    let runner = |rng: &mut Rng| match rng.below(4) {
        0 => Runner::ControlRetry,
        1 => Runner::RetryLoop(2),
        _ => Runner::WithErr,
    };
    let mut threads: Vec<Vec<Tx>> = vec![];
    let op = if collapse_variant { Op::Collapse { e } } else { mk_cut(rng, &init, &mut pool, e) };
    threads.push(vec![Tx { runner: runner(rng), ops: vec![op], f1: vec![], f2: vec![], f1_attempt: 0 }]);
    // the writer, possibly after an unrelated transaction
    let mut w = vec![];
    if collapse_variant && rng.chance(0.5) {
        // ... and after a change of the neighbourhood the waiter has already looked at
        let around: Vec<u32> = [a, b].iter().flat_map(|&c| init.orbit(crate::state::Policy::Vertex, c)).filter(|&x| init.b(2, x) != 0 && pe[x as usize] != e).collect();
        if !around.is_empty() {
            let x = *rng.pick(&around);
            w.push(Tx { runner: Runner::WithErr, ops: vec![Op::Unsew { i: 2, l: x }], f1: vec![], f2: vec![], f1_attempt: 0 });
        }
    }
    if rng.chance(0.5) {
        w.push(Tx { runner: Runner::WithErr, ops: vec![Op::ReadV { id: pv[*rng.pick(&linked) as usize] }], f1: vec![], f2: vec![], f1_attempt: 0 });
    }
    w.push(Tx { runner: if rng.chance(0.5) { Runner::Atomically } else { Runner::WithErr }, ops: vec![Op::WriteV { id: v, v: value }], f1: vec![], f2: vec![], f1_attempt: 0 });
    threads.push(w);
    if rng.chance(0.4) && pool.len() >= 6 {
        // a second waiter on another edge at the same vertex
        let others: Vec<u32> = linked.iter().copied().filter(|&d| pe[d as usize] == d && d != e && (pv[d as usize] == v || pv[init.b(1, d) as usize] == v)).collect();
        if !others.is_empty() {
            let e2 = *rng.pick(&others);
            let op = mk_cut(rng, &init, &mut pool, e2);
            threads.push(vec![Tx { runner: runner(rng), ops: vec![op], f1: vec![], f2: vec![], f1_attempt: 0 }]);
        }
    }
    let n = threads.len();
    Scenario { init, order, threads, f2: (0..n).map(|_| if rng.chance(0.2) { vec![0] } else { vec![] }).collect(), pre: vec![] }
}

/// S4: the dispatch pattern of benches/src/cut_edges.rs: an exclusive epoch selects the edges
/// longer than a target and appends 6 fresh darts per selected edge (`add_free_darts`, run for
/// real as the scenario's prologue); then the work units (edge, its 6 darts) are statically
/// partitioned in chunks over the simulated threads (the stub of rayon / std::thread::scope),
/// each unit processed by the bench's `while !with_control_and_err(always Retry, cut).is_validated()`
/// loop (bounded) with `is_i_free::<2>` deciding between the outer and the inner cut.
pub fn gen_s4(rng: &mut Rng) -> Scenario {
    use crate::hist::Step;
    use crate::ops::{Op, Runner, Tx};
    let (nx, ny) = (1 + rng.below(2), 1 + rng.below(2));
    let mesh = grid_mesh(rng, nx, ny, true, 0.3);
    let (init, _) = state_from_mesh(&mesh, 0, 0);
    let (pv, pe) = (init.partition(0), init.partition(1));
    let len = |e: u32| -> f64 {
        let a = crate::state::f3(init.vtx[pv[e as usize] as usize].unwrap());
        let b = crate::state::f3(init.vtx[pv[init.b(1, e) as usize] as usize].unwrap());
        ((a[0] - b[0]).powi(2) + (a[1] - b[1]).powi(2)).sqrt()
    };
    let mut edges: Vec<u32> = (1..init.n() as u32).filter(|&d| pe[d as usize] == d).collect();
    let target = 0.8 + 0.6 * rng.unit();
    edges.retain(|&e| len(e) > target);
    rng.shuffle(&mut edges);
    edges.truncate(3 + rng.below(5));
    if edges.is_empty() {
        edges.push(1);
    }
    let n_e = edges.len();
    let first_new = init.n() as u32;
    let units: Vec<(u32, [u32; 6])> = edges.iter().enumerate().map(|(k, &e)| (e, std::array::from_fn(|j| first_new + 6 * k as u32 + j as u32))).collect();
    let n_threads = 2 + rng.below(2);
    let chunk = 1 + n_e / n_threads;
    let mut threads: Vec<Vec<Tx>> = vec![];
    for wl in units.chunks(chunk) {
        threads.push(
            wl.iter()
                .map(|&(e, nd)| {
                    let op = if init.b(2, e) == 0 { Op::CutOuter { e, nd: [nd[0], nd[1], nd[2]] } } else { Op::CutInner { e, nd } };
                    Tx { runner: if rng.chance(0.7) { Runner::RetryLoop(3) } else { Runner::ControlRetry }, ops: vec![op], f1: vec![], f2: vec![], f1_attempt: 0 }
                })
                .collect(),
        );
    }
    while threads.len() < 2 {
        threads.push(vec![Tx { runner: Runner::WithErr, ops: vec![Op::Audit { kinds: 0, data: true }], f1: vec![], f2: vec![], f1_attempt: 0 }]);
    }
    let n = threads.len();
    Scenario { init, order: [vec![], vec![], vec![]], threads, f2: (0..n).map(|_| if rng.chance(0.3) { vec![rng.below(3) as u32] } else { vec![] }).collect(), pre: vec![Step::AddFreeDarts(6 * n_e as u32)] }
}

/// S3b: two or three kernels, one per thread, all aimed at the same face / edge or at direct
/// neighbours of it, each valid on the initial state with its own fresh spare darts: the
/// kernel counterpart of S1b (torn snapshots inside kernels are where `unwrap()`s and
/// `unreachable!()`s bite).
pub fn gen_s3b(rng: &mut Rng) -> Scenario {
    use crate::ops::{Op, Runner, Tx};
    let tri = rng.chance(0.5);
    let kinds = if rng.chance(0.7) { 0 } else { rand_kinds_kernels(rng) };
    let init = kernel_state(rng, kinds, tri, 2);
    let order = rand_order(rng, init.kinds);
    let mut pool = free_pool(&init);
    let (pe, pf) = (init.partition(1), init.partition(2));
    let linked: Vec<u32> = (1..init.n() as u32).filter(|&d| !init.is_free(d)).collect();
    let x = *rng.pick(&linked);
    // darts of the face of x and of the faces across its sides
    let mut hood: Vec<u32> = init.face_walk(x, true).fwd.clone();
    for d in hood.clone() {
        let o = init.b(2, d);
        if o != 0 {
            for y in init.face_walk(o, true).fwd {
                if !hood.contains(&y) {
                    hood.push(y);
                }
            }
        }
    }
    let n_threads = 2 + usize::from(rng.chance(0.3));
    let mut threads = vec![];
    for _ in 0..n_threads {
        let d = *rng.pick(&hood);
        let mut take = |k: usize, pool: &mut Vec<u32>| -> Option<Vec<u32>> {
            if pool.len() < k { None } else { Some(pool.drain(..k).collect()) }
        };
        rng.shuffle(&mut pool);
        let face = pf[d as usize];
        let flen = init.face_walk(face, true).fwd.len();
        let op = if rng.chance(0.3) {
            // a core edit or a user block on the same darts (what the examples' own code does
            // next to the kernels)
            Some(match rng.below(6) {
                0 | 1 if init.b(2, d) != 0 => if rng.chance(0.7) { Op::Unsew { i: 2, l: d } } else { Op::Unlink { i: 2, l: d } },
                2 if init.b(1, d) != 0 => Op::Unsew { i: 1, l: d },
                3 => Op::WriteVCell { d, v: crate::state::b3([31.0 + d as f64, -17.5, 0.0]) },
                4 => Op::ReadVCell { d },
                _ => Op::CellId { okind: rng.below(3) as u8, d },
            })
        } else { match rng.below(if tri { 6 } else { 9 }) {
            0 | 1 => take(2, &mut pool).map(|v| Op::InsertVertex { e: pe[d as usize], nd: (v[0], v[1]), t: Some((0.2 + 0.6 * rng.unit()).to_bits()) }),
            2 => take(4, &mut pool).map(|v| Op::InsertVertices { e: pe[d as usize], nd: v, ts: vec![0.3f64.to_bits(), 0.7f64.to_bits()] }),
            3 if tri => Some(Op::Swap { e: pe[d as usize] }),
            4 if tri => {
                if init.b(2, d) == 0 { take(3, &mut pool).map(|v| Op::CutOuter { e: d, nd: [v[0], v[1], v[2]] }) } else { take(6, &mut pool).map(|v| Op::CutInner { e: pe[d as usize], nd: [v[0], v[1], v[2], v[3], v[4], v[5]] }) }
            }
            5 if tri => Some(Op::Collapse { e: pe[d as usize] }),
            _ if flen >= 4 => take(2 * (flen - 3), &mut pool).map(|nd| match rng.below(4) {
                0 => Op::Fan { f: face, nd },
                1 => Op::FanConvex { f: face, nd },
                2 => Op::EarclipCcw { f: face, nd },
                _ => Op::EarclipCw { f: face, nd },
            }),
            _ => Some(Op::CellId { okind: 2, d }),
        } }
        .unwrap_or(Op::CellId { okind: 0, d });
        let runner = match rng.below(4) {
            0 => Runner::ControlRetry,
            1 => Runner::RetryLoop(2),
            _ => Runner::WithErr,
        };
        threads.push(vec![Tx { runner, ops: vec![op], f1: vec![], f2: vec![], f1_attempt: 0 }]);
    }
    Scenario { init, order, threads, f2: vec![], pre: vec![] }
}

pub fn gen_family(rng: &mut Rng) -> (&'static str, Scenario) {
    // debugging aid: VERIF_ONLY=<family> restricts generation to one family
    if let Ok(only) = std::env::var("VERIF_ONLY") {
        return match only.as_str() {
            "S1" => ("S1", gen_s1(rng)),
            "S1b" => ("S1b", gen_pair_conflict(rng)),
            "S2" => ("S2", gen_s2(rng)),
            "S3" => ("S3", gen_s3(rng)),
            "S3b" => ("S3b", gen_s3b(rng)),
            "S4" => ("S4", gen_s4(rng)),
            "S5" => ("S5", gen_s5(rng)),
            _ => ("S6", gen_s6(rng)),
        };
    }
    // the pair-conflict families (S1b, S3b) find the most per scenario and get the largest share
    match rng.below(40) {
        0..=5 => ("S1", gen_s1(rng)),
        6..=17 => ("S1b", gen_pair_conflict(rng)),
        18..=21 => ("S2", gen_s2(rng)),
        22..=25 => ("S3", gen_s3(rng)),
        26..=32 => ("S3b", gen_s3b(rng)),
        33..=34 => ("S4", gen_s4(rng)),
        35..=36 => ("S5", gen_s5(rng)),
        _ => ("S6", gen_s6(rng)),
    }
}

// ------------------------------------------------------------------------------- minimiser

/// Search schedules of `scn` for a violation of class `class`. Tries the old trace first.
fn find_violation(scn: &Arc<Scenario>, class: &str, hint: &SchedSpec, rng: &mut Rng, tries: usize) -> Option<(SchedSpec, String)> {
    if class == STUCK {
        return stuck_message(scn).map(|m| (hint.clone(), m));
    }
    let mut specs = vec![hint.clone()];
    let mut h2 = hint.clone();
    h2.replay = None;
    specs.push(h2);
    for _ in 0..tries {
        specs.push(draw_sched(rng, scn.threads.len().max(1), 200));
    }
    for spec in specs {
        let info = eval_run(scn, &spec);
        if let Verdict::Violation { class: c, message } = info.verdict {
            if c == class {
                let mut s2 = spec.clone();
                s2.replay = Some(info.sched.trace.clone());
                return Some((s2, message));
            }
        }
    }
    None
}

/// Drop threads, transactions, operations and faults while a violation of the same class can
/// still be found within a bounded schedule search.
pub fn minimise(v: Violation) -> Violation {
    let Ok(p) = serde_json::from_value::<Payload>(v.payload.clone()) else { return v };
    let mut rng = Rng::new(v.seed ^ 0x6d696e);
    let class = v.class.clone();
    let mut scn = p.scenario.clone();
    let mut spec = p.sched.clone();
    let mut msg = v.message.clone();
    let tries = if class == "non-termination" || class == "deadlock" { 6 } else { 120 };
    let mut progress = true;
    let mut rounds = 0;
    while progress && rounds < 6 {
        progress = false;
        rounds += 1;
        // drop whole transactions
        let mut th = 0;
        while th < scn.threads.len() {
            let mut i = 0;
            while i < scn.threads[th].len() {
                if scn.n_tx() <= 1 {
                    break;
                }
                let mut c = scn.clone();
                c.threads[th].remove(i);
                let empty = c.threads[th].is_empty();
                if empty {
                    c.threads.remove(th);
                    if th < c.f2.len() {
                        c.f2.remove(th);
                    }
                }
                if let Some((s2, m)) = find_violation(&Arc::new(c.clone()), &class, &spec, &mut rng, tries) {
                    scn = c;
                    spec = s2;
                    msg = m;
                    progress = true;
                    if empty {
                        break;
                    }
                } else {
                    i += 1;
                }
            }
            th += 1;
        }
        // drop operations inside transactions
        for th in 0..scn.threads.len() {
            for i in 0..scn.threads[th].len() {
                let mut k = 0;
                while scn.threads[th][i].ops.len() > 1 && k < scn.threads[th][i].ops.len() {
                    let mut c = scn.clone();
                    c.threads[th][i].ops.remove(k);
                    if let Some((s2, m)) = find_violation(&Arc::new(c.clone()), &class, &spec, &mut rng, tries) {
                        scn = c;
                        spec = s2;
                        msg = m;
                        progress = true;
                    } else {
                        k += 1;
                    }
                }
            }
        }
        // drop faults
        let mut c = scn.clone();
        let had = c.f2.iter().any(|f| !f.is_empty()) || c.threads.iter().flatten().any(|t| !t.f1.is_empty() || !t.f2.is_empty());
        if had {
            for f in c.f2.iter_mut() {
                f.clear();
            }
            for t in c.threads.iter_mut().flatten() {
                t.f1.clear();
                t.f2.clear();
            }
            if let Some((s2, m)) = find_violation(&Arc::new(c.clone()), &class, &spec, &mut rng, tries) {
                scn = c;
                spec = s2;
                msg = m;
                progress = true;
            }
        }
        if spec.early_wake_pm > 0 {
            let mut s3 = spec.clone();
            s3.early_wake_pm = 0;
            s3.replay = None;
            if let Some((s2, m)) = find_violation(&Arc::new(scn.clone()), &class, &s3, &mut rng, 40) {
                if s2.early_wake_pm == 0 {
                    spec = s2;
                    msg = m;
                }
            }
        }
    }
    let mut out = v.clone();
    out.message = msg;
    out.payload = serde_json::to_value(Payload { family: p.family, scenario: scn, sched: spec }).unwrap();
    out
}

// ------------------------------------------------------------------------------------ check

pub fn digest(n: u64) {
    digest_runs("C07", n, |i, seed, c| run_scenario(i, seed, c));
}

pub fn check(tier: Tier) -> i32 {
    let n_scen = scaled(match tier {
        Tier::Quick => 4_000,
        Tier::Thorough => 300_000,
    });
    let (mut counters, viols, wall) = parallel_runs("C07", n_scen, |i, seed, c| run_scenario(i, seed, c));
    let evaluations = counters.get("executions");
    let distinct = counters.n_distinct("commit_interleavings");
    counters.max_samples = 4;
    let rep = Report {
        property: "C07".into(),
        tier,
        level: "exploration",
        wall_s: wall,
        evaluations,
        distinct_nontrivial: distinct,
        rule: "one evaluation = one simulated execution of a generated scenario (2-4 threads x 1-3 transactions x 1-4 real operations on a shared real map) under one seeded schedule and fault plan; distinct_nontrivial counts distinct signatures of the global sequence of STM events (thread, commit/validation-failure/abort/park) among executions in which at least two threads committed a write or a validation failed, i.e. real interleavings rather than the sequential orders".into(),
        assumptions: vec![
            "the instrumented fast-stm copy (vendor/fast-stm-sim) behaves like fast-stm 0.5.0: same algorithm, primitives swapped for scheduler-owned ones".into(),
            "sequentially consistent atomics (shuttle does not model weak memory); preemption only at synchronisation operations, which is where honeycomb shares state".into(),
            "seeded sampling of schedules: a clean batch is evidence, not proof".into(),
        ],
        extra: json!({"decisions": counters.get("decisions"), "sim_park_timeout_s": counters.get("f3_early_wakes"), "faults": {
            "F1_attr_fail": {"configured": counters.get("f1_configured"), "fired": counters.get("f1_fired")},
            "F2_forced_revalidation": {"configured": counters.get("f2_configured"), "fired": counters.get("f2_fired")},
            "F3_early_wake": {"configured_runs": counters.get("f3_configured"), "fired": counters.get("f3_early_wakes")},
            "F4_stall": {"configured_runs": counters.get("sched_stall"), "stalled_decisions": counters.get("f4_stalled_decisions")},
        }}),
        counters,
        exhaustive: false,
    };
    let mut hits: BTreeMap<String, (KnownFinding, u64)> = BTreeMap::new();
    let mut real = run_stored_replays("C07", &|v| replay_verdict(v).is_some(), &mut hits);
    let mut seen = std::collections::BTreeSet::new();
    for v in viols {
        if seen.insert(v.class.clone()) {
            real.push(minimise(v));
        }
    }
    conclude(&rep, real, &hits)
}

const STUCK: &str = "never-terminates-after-all-others-finished";

fn stuck_message(scn: &Arc<Scenario>) -> Option<String> {
    if !nothing_to_wait_for(scn) {
        return None;
    }
    let (order, at) = stuck_when_run_last(scn)?;
    let (t, i) = order[at];
    Some(format!("in the interleaving {order:?} every other thread has finished when thread {t} runs its transaction {i} ({:?}), which never returns: every vertex of the map has coordinates and no operation removes any, so nobody will ever write what it waits for", scn.threads[t][i].ops))
}

fn stuck_violation(scn: &Arc<Scenario>, family: &str, seed: u64, run: u64) -> Option<Violation> {
    let message = stuck_message(scn)?;
    let sched = SchedSpec { kind: SchedKind::Fair, seed: 0, early_wake_pm: 0, fair_after: u32::MAX, replay: None, steer_pm: 0 };
    Some(Violation { property: "C07".into(), class: STUCK.into(), message, seed, run, payload: serde_json::to_value(Payload { family: family.into(), scenario: (**scn).clone(), sched }).unwrap(), known: None })
}

fn replay_verdict(v: &Violation) -> Option<(String, String)> {
    let p: Payload = serde_json::from_value(v.payload.clone()).ok()?;
    if v.class == STUCK {
        return stuck_message(&Arc::new(p.scenario)).map(|m| (STUCK.to_string(), m));
    }
    let scn = Arc::new(p.scenario);
    let info = eval_run(&scn, &p.sched);
    match info.verdict {
        Verdict::Violation { class, message } if class == v.class => Some((class.to_string(), message)),
        _ => None,
    }
}

fn run_scenario(i: u64, seed: u64, c: &mut Counters) -> Vec<Violation> {
    let mut rng = Rng::new(seed);
    let mut srng = rng.fork(1);
    let (family, scn) = gen_family(&mut srng);
    let scn = Arc::new(scn);
    c.inc("scenarios");
    c.inc(&format!("scenarios_{family}"));
    c.sample(|| json!({"seed": seed, "scenario": &*scn}));
    // admission: sampled serial orders must not panic
    let (n_orders, p, b, msg) = serial_survey(&scn, 24);
    c.add("admission_serial_orders", n_orders as u64);
    if p > 0 {
        c.inc("scenarios_discarded_ill_formed");
        c.note("discarded_scenarios", || format!("seed {seed}: {msg:?}"));
        return vec![];
    }
    if b > 0 {
        c.inc("scenarios_with_blocking_serial_order");
        if nothing_to_wait_for(&scn) {
            c.inc("scenarios_with_blocking_serial_order_and_nothing_to_wait_for");
            if let Some(v) = stuck_violation(&scn, family, seed, i) {
                if std::env::var("VERIF_DEBUG").is_ok() {
                    eprintln!("STUCK {:?}", scn.threads.iter().map(|t| t.iter().map(|x| format!("{:?}", x.ops)).collect::<Vec<_>>()).collect::<Vec<_>>());
                }
                return vec![v];
            }
        }
    }
    let n_sched = 8 + rng.below(25);
    let mut est_len = 64u32;
    let mut per_task: Vec<u32> = vec![];
    let mut out = vec![];
    let mut fin_states = std::collections::BTreeSet::new();
    for k in 0..n_sched {
        let mut spec = draw_sched_with(&mut rng, scn.threads.len(), est_len, &per_task);
        if k == 0 {
            spec.kind = SchedKind::Uniform;
        }
        let info = eval_run(&scn, &spec);
        if k == 0 {
            est_len = (info.sched.multi_decisions as u32).max(8);
            per_task = info.sched.per_task.clone();
        }
        c.inc("executions");
        c.inc(&format!("sched_{}", sched_name(&spec.kind)));
        c.inc(&format!("executions_{family}"));
        c.add("decisions", info.sched.multi_decisions);
        c.add("context_switches", info.sched.context_switches);
        c.add("f3_early_wakes", info.sched.early_wakes);
        c.add("f4_stalled_decisions", info.sched.stalled_decisions);
        c.add("probe_plain_reads_inside_transaction_bodies", info.stm.plain_reads_in_body);
        c.add("probe_steered_handoffs", info.sched.steered_handoffs);
        if spec.early_wake_pm > 0 {
            c.inc("f3_configured");
        }
        c.add("f2_fired", info.stm.forced_failures);
        c.add("f1_fired", info.f1_fired);
        c.add("stm_attempts", info.stm.attempts);
        c.add("stm_commits", info.stm.commits);
        c.add("stm_validation_failures", info.stm.validation_failures);
        c.add("stm_aborts", info.stm.aborts);
        c.add("stm_aborts_on_stale_reads", info.stm.aborts_on_stale_reads);
        c.add("stm_parks", info.stm.park_calls);
        c.add("tx_committed", info.committed as u64);
        c.add("tx_total", info.n_tx as u64);
        c.seen("schedules", info.sched.hash ^ seed);
        if info.stm.validation_failures > 0 || info.stm.write_commits >= 2 {
            c.seen("commit_interleavings", info.stm.signature ^ crate::prng::mix64(seed));
        }
        fin_states.insert(info.fin_hash);
        match info.verdict {
            Verdict::Pass { searched } => {
                if searched {
                    c.inc("matched_by_order_search_only");
                } else {
                    c.inc("matched_by_commit_order");
                }
            }
            Verdict::Inconclusive(_) => c.inc("runs_inconclusive"),
            Verdict::Discard(_) => {
                c.inc("runs_discarded_ill_formed");
            }
            Verdict::Violation { class, message } => {
                c.inc(&format!("candidate_{class}_{family}"));
                let mut spec2 = spec.clone();
                spec2.replay = Some(info.sched.trace.clone());
                out.push(Violation {
                    property: "C07".into(),
                    class: class.into(),
                    message,
                    seed,
                    run: i,
                    payload: serde_json::to_value(Payload { family: family.into(), scenario: (*scn).clone(), sched: spec2 }).unwrap(),
                    known: None,
                });
                break;
            }
        }
    }
    let f1c: u64 = scn.threads.iter().flatten().filter(|t| !t.f1.is_empty()).count() as u64;
    c.add("f1_configured", f1c);
    c.add("f2_configured", scn.f2.iter().filter(|f| !f.is_empty()).count() as u64);
    if fin_states.len() > 1 {
        c.inc("scenarios_with_several_final_states");
    }
    c.add("final_states", fin_states.len() as u64);
    out
}

pub fn replay(v: &Violation) -> i32 {
    let p: Payload = match serde_json::from_value(v.payload.clone()) {
        Ok(p) => p,
        Err(e) => {
            eprintln!("HARNESS-ERROR bad C07 payload: {e}");
            return 2;
        }
    };
    let scn = Arc::new(p.scenario);
    if v.class == STUCK {
        return match stuck_message(&scn) {
            Some(m) => {
                println!("REPRODUCED property=C07 class={STUCK}: {m}");
                1
            }
            None => {
                println!("not reproduced");
                0
            }
        };
    }
    let info = eval_run(&scn, &p.sched);
    if info.sched.replay_diverged {
        println!("replay diverged from the recorded schedule");
    }
    match info.verdict {
        Verdict::Violation { class, message } => {
            println!("REPRODUCED property=C07 class={class}: {message}");
            1
        }
        other => {
            println!("not reproduced: {other:?}");
            0
        }
    }
}
