pub mod c07;
