pub mod c07;
pub mod hprops;
pub mod c06;
pub mod c08;
