pub mod c07;
pub mod hprops;
