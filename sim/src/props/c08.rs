//! C08 — operations composed in one transaction act like the same calls in sequence.
//!
//! Straight-line programs are run (a) one operation per transaction, (b) all in one
//! `atomically_with_err` block, (b') like (b) under forced re-executions (F2), (b'') like (b)
//! while a second simulated thread commits writes confined to a disjoint component, under
//! seeded schedules. If every operation succeeds in (a) or in (b), all runs must agree op by op
//! on results and on the final snapshot.

use std::collections::BTreeMap;
use std::sync::Arc;

use serde::{Deserialize, Serialize};
use serde_json::json;

use crate::anymap::{KindOrder, build_map};
use crate::conc::{Scenario, run_concurrent};
use crate::exec::{Outcome, execute_serial};
use crate::faults;
use crate::gen2::*;
use crate::harness::*;
use crate::ops::{Op, Res, Runner, Tx, TxValue, run_tx};
use crate::prng::Rng;
use crate::props::c07::draw_sched;
use crate::props::hprops::{Flavour, gen_init};
use crate::sched::SchedSpec;
use crate::state::State;

#[derive(Clone, Debug, Serialize, Deserialize)]
pub struct Program {
    pub init: State,
    pub order: KindOrder,
    pub ops: Vec<Op>,
}

#[derive(Clone, Debug, Serialize, Deserialize)]
pub struct Payload {
    pub program: Program,
    /// "composed", "reexec", "noise"
    pub leg: String,
    #[serde(default)]
    pub f2: Vec<u32>,
    #[serde(default)]
    pub noise: Vec<Tx>,
    #[serde(default)]
    pub sched: Option<SchedSpec>,
}

#[derive(Clone, Debug, PartialEq)]
pub struct SeqOut {
    pub results: Vec<Result<Res, String>>,
    pub fin: State,
}

fn run_sequential(p: &Program) -> SeqOut {
    let (map, _) = build_map(&p.init, &p.order);
    fast_stm::verif::set_sim_thread(1, vec![]);
    faults::reset_thread();
    let mut results = vec![];
    for op in &p.ops {
        let o = run_tx(&map, &Tx { runner: Runner::WithErr, ops: vec![op.clone()], f1: vec![], f2: vec![], f1_attempt: 0 });
        results.push(match o.value {
            TxValue::Ok(mut v) => Ok(v.remove(0)),
            TxValue::Err(_, e) => Err(e),
            TxValue::Abandoned => Err("Abandoned".into()),
        });
    }
    SeqOut { results, fin: map.snapshot(p.init.kinds) }
}

fn run_composed(p: &Program, f2: &[u32]) -> (TxValue, State, u32) {
    let (map, _) = build_map(&p.init, &p.order);
    fast_stm::verif::set_sim_thread(1, vec![]);
    faults::reset_thread();
    let o = run_tx(&map, &Tx { runner: Runner::WithErr, ops: p.ops.clone(), f1: vec![], f2: f2.to_vec(), f1_attempt: 0 });
    (o.value, map.snapshot(p.init.kinds), o.attempts)
}

/// Compare (a) and a composed run. None = agree or outside the statement.
fn judge(seq: &SeqOut, comp: &TxValue, comp_fin: &State, leg: &str) -> Option<(String, String)> {
    let seq_all_ok = seq.results.iter().all(Result::is_ok);
    match comp {
        TxValue::Ok(v) => {
            if !seq_all_ok {
                let k = seq.results.iter().position(Result::is_err).unwrap();
                return Some((format!("{leg}-succeeds-sequence-fails"), format!("all operations succeed inside one transaction, but run one per transaction operation {k} fails with {:?}", seq.results[k])));
            }
            for (k, (a, b)) in seq.results.iter().zip(v.iter()).enumerate() {
                if a.as_ref().ok() != Some(b) {
                    return Some((format!("{leg}-result-differs"), format!("operation {k} returns {:?} in its own transaction and {b:?} inside the single transaction", a)));
                }
            }
            if &seq.fin != comp_fin {
                return Some((format!("{leg}-state-differs"), format!("final states differ (single transaction vs sequence): {}", comp_fin.diff(&seq.fin))));
            }
            None
        }
        TxValue::Err(k, e) => {
            if seq_all_ok {
                Some((format!("{leg}-fails-sequence-succeeds"), format!("every operation succeeds in its own transaction, but inside one transaction operation {k} fails with {e}")))
            } else {
                None
            }
        }
        TxValue::Abandoned => None,
    }
}

// ------------------------------------------------------------------------------- generation

fn apply_on_model(cur: &mut State, op: &Op) {
    match op {
        Op::Link { i, l, r } | Op::Sew { i, l, r } => {
            let _ = cur.link(*i, *l, *r);
        }
        Op::Unlink { i, l } | Op::Unsew { i, l } => {
            let _ = cur.unlink(*i, *l);
        }
        _ => {}
    }
}

pub fn gen_program(rng: &mut Rng, tier: Tier) -> Program {
    let kernel = rng.chance(0.4);
    let dim = if kernel || rng.chance(0.55) { 2 } else { 3 };
    let init = if kernel {
        let kinds = if rng.chance(0.5) { 0 } else { rand_kinds_kernels(rng) };
        let tri = rng.chance(0.6);
        kernel_state(rng, kinds, tri, 2)
    } else {
        let mut s = gen_init(rng, dim, Flavour::Sews, tier);
        if rng.chance(0.5) {
            // no user kinds (their weight laws reject merges of valueless cells, which makes
            // most multi-operation programs fail for reasons unrelated to composition)
            s.kinds = 0;
            for a in s.attrs.iter_mut() {
                a.clear();
            }
        }
        if rng.chance(0.7) {
            // fully embedded: every vertex has coordinates
            let pv = s.partition(0);
            for d in 1..s.n() as u32 {
                if !s.unused[d as usize] && pv[d as usize] == d && s.vtx[d as usize].is_none() {
                    s.vtx[d as usize] = Some(rand_point(rng, s.dim));
                }
            }
        }
        s
    };
    let mut init = init;
    if init.kinds != 0 && rng.chance(0.15) {
        // one registered kind without any value yet: its first values are written by the program
        let ks = crate::attrs::mask_kinds(init.kinds);
        let k = *rng.pick(&ks);
        for v in init.attrs[k].iter_mut() {
            *v = None;
        }
    }
    let order = rand_order(rng, init.kinds);
    if rng.chance(0.7) {
        return gen_program_adaptive(rng.next(), init, order, kernel);
    }
    if dim == 3 && rng.chance(0.25) {
        // template: an operation changes a face that a later 3-sew walks
        if let Some((t, close, sew3)) = crate::gen3::closing_then_three_sew(rng, &init) {
            let mut ops = vec![close, sew3];
            if rng.chance(0.3) {
                let g = OpGen::new(rng, &t, 2);
                let mut u = 0;
                let extra = loop {
                    let o = g.data(rng, &mut u);
                    if !matches!(o, Op::Audit { .. }) {
                        break o;
                    }
                };
                ops.insert(rng.below(2), extra);
            }
            return Program { init: t, order, ops };
        }
    }
    let n_ops = 2 + [0, 0, 1, 1, 2, 3, 4, 6][rng.below(8)];
    let mut cur = init.clone();
    let mut ops = vec![];
    let mut uniq = 0u64;
    for _ in 0..n_ops {
        let op = if kernel && rng.chance(0.5) {
            match kernel_op(rng, &cur, None) {
                Some(Op::MoveToAverage { .. }) | None => continue,
                Some(o) => o,
            }
        } else {
            let mut g = OpGen::new(rng, &cur, 2);
            g.p_valid = 0.93;
            if rng.chance(0.7) {
                let mut o = g.topo(rng);
                if rng.chance(0.5) {
                    o = match o {
                        Op::Link { i, l, r } => Op::Sew { i, l, r },
                        Op::Unlink { i, l } => Op::Unsew { i, l },
                        o => o,
                    };
                }
                o
            } else {
                // (the auditor reads every dart of the map, including the component reserved
                // for the noise thread of leg b'': not a program that "cannot reach" it)
                loop {
                    let o = g.data(rng, &mut uniq);
                    if !matches!(o, Op::Audit { .. }) {
                        break o;
                    }
                }
            }
        };
        apply_on_model(&mut cur, &op);
        ops.push(op);
    }
    if ops.len() < 2 {
        ops.push(Op::Beta { i: 1, d: 1 });
        ops.push(Op::Beta { i: 2, d: 1 });
    }
    Program { init, order, ops }
}

/// Does the operation name the null dart (as an argument or as a spare dart)? Dart 0 and the
/// slots stored under it are a sink every thread can write to (unlinking a free dart writes
/// beta0(0); a sew of darts without successors looks up the vertex of dart 0), so a program that
/// works on dart 0 is not "on a component nobody else can reach".
fn mentions_null(op: &Op) -> bool {
    let v = serde_json::to_value(op).unwrap();
    fn walk(v: &serde_json::Value, key: &str) -> bool {
        match v {
            serde_json::Value::Object(m) => m.iter().any(|(k, x)| walk(x, k)),
            serde_json::Value::Array(a) => matches!(key, "nd") && a.iter().any(|x| x.as_u64() == Some(0)),
            serde_json::Value::Number(n) => matches!(key, "l" | "r" | "d" | "e" | "f" | "id" | "vid") && n.as_u64() == Some(0),
            _ => false,
        }
    }
    walk(&v, "")
}

/// Main dart argument of an operation (what it is "about").
fn principal(op: &Op) -> Option<u32> {
    Some(match op {
        Op::Swap { e } | Op::CutInner { e, .. } | Op::CutOuter { e, .. } | Op::Collapse { e } | Op::InsertVertex { e, .. } | Op::InsertVertices { e, .. } => *e,
        Op::Fan { f, .. } | Op::FanConvex { f, .. } | Op::EarclipCcw { f, .. } | Op::EarclipCw { f, .. } => *f,
        Op::Link { l, .. } | Op::Sew { l, .. } | Op::Unlink { l, .. } | Op::Unsew { l, .. } => *l,
        Op::ReadV { id } | Op::WriteV { id, .. } | Op::RemoveV { id } | Op::ReadA { id, .. } | Op::WriteA { id, .. } | Op::RemoveA { id, .. } => *id,
        Op::CellId { d, .. } | Op::Orbit { d, .. } | Op::Beta { d, .. } | Op::WriteACell { d, .. } | Op::WriteVCell { d, .. } | Op::ReadVCell { d } | Op::ReadACell { d, .. } => *d,
        _ => return None,
    })
}

/// Programs generated *while running them* one operation per transaction on the real map:
/// every operation is drawn on the state its predecessors really produced (a model of the
/// kernels' effects is not needed), preferring arguments among the darts the previous operations
/// touched, so that later calls read what earlier ones wrote — the only situation in which a
/// composed transaction can differ from the sequence.
fn gen_program_adaptive(seed: u64, init: State, order: KindOrder, kernel: bool) -> Program {
    let ops: Arc<std::sync::Mutex<Vec<Op>>> = Arc::new(std::sync::Mutex::new(vec![]));
    let (ops2, init2, order2) = (ops.clone(), init.clone(), order.clone());
    let _ = execute_serial(move || {
        let mut rng = Rng::new(seed);
        let (map, _) = build_map(&init2, &order2);
        fast_stm::verif::set_sim_thread(1, vec![]);
        faults::reset_thread();
        ops2.lock().unwrap().clear();
        let n_ops = 2 + [0, 0, 1, 1, 2, 3, 4][rng.below(7)];
        let mut cur = init2.clone();
        let mut focus: std::collections::BTreeSet<u32> = Default::default();
        let mut uniq = 0u64;
        let mut draws = 0;
        while ops2.lock().unwrap().len() < n_ops && draws < 4 * n_ops {
            draws += 1;
            let want_focus = !focus.is_empty() && rng.chance(0.75);
            let mut chosen: Option<Op> = None;
            for _try in 0..10 {
                let cand = if rng.chance(0.1) {
                    // the transactional removal of a free dart (now and then of a removed one)
                    let free: Vec<u32> = (1..cur.n() as u32).filter(|&d| cur.is_free(d) && (!cur.unused[d as usize] || rng.chance(0.1))).collect();
                    if free.is_empty() {
                        continue;
                    }
                    Op::RemoveDartTx { d: *rng.pick(&free) }
                } else if kernel && rng.chance(0.6) {
                    match kernel_op(&mut rng, &cur, None) {
                        Some(Op::MoveToAverage { .. }) | None => continue,
                        Some(o) => o,
                    }
                } else {
                    let mut g = OpGen::new(&mut rng, &cur, 2);
                    g.p_valid = 0.93;
                    if rng.chance(0.6) {
                        match g.topo(&mut rng) {
                            Op::Link { i, l, r } if rng.chance(0.5) => Op::Sew { i, l, r },
                            Op::Unlink { i, l } if rng.chance(0.5) => Op::Unsew { i, l },
                            o => o,
                        }
                    } else {
                        match g.data(&mut rng, &mut uniq) {
                            Op::Audit { .. } => continue,
                            o => o,
                        }
                    }
                };
                let hit = principal(&cand).map(|d| focus.contains(&d)).unwrap_or(false);
                chosen = Some(cand);
                if !want_focus || hit {
                    break;
                }
            }
            let Some(op) = chosen else { continue };
            ops2.lock().unwrap().push(op.clone());
            let o = run_tx(&map, &Tx { runner: Runner::WithErr, ops: vec![op], f1: vec![], f2: vec![], f1_attempt: 0 });
            if !matches!(o.value, TxValue::Ok(_)) && rng.chance(0.85) {
                // a failed call changes nothing (C06's business): mostly keep programs whose
                // operations all succeed, the statement's domain
                ops2.lock().unwrap().pop();
                continue;
            }
            let next = map.snapshot(init2.kinds);
            for d in 1..next.n() {
                let changed = d >= cur.n()
                    || cur.beta[d] != next.beta[d]
                    || cur.vtx[d] != next.vtx[d]
                    || cur.unused[d] != next.unused[d]
                    || (0..cur.attrs.len()).any(|k| cur.attrs[k].get(d) != next.attrs[k].get(d));
                if changed {
                    focus.insert(d as u32);
                    for i in 0..3u8 {
                        let x = next.b(i, d as u32);
                        if x != 0 {
                            focus.insert(x);
                        }
                    }
                }
            }
            cur = next;
        }
    });
    let mut ops = ops.lock().unwrap().clone();
    if ops.len() < 2 {
        ops.push(Op::Beta { i: 1, d: 1 });
        ops.push(Op::Beta { i: 2, d: 1 });
    }
    Program { init, order, ops }
}

/// Noise transactions confined to darts appended after the program's map (ids >= `first`).
fn gen_noise(rng: &mut Rng, first: u32, dim: u8) -> Vec<Tx> {
    let d = |k: u32| first + k;
    let mut txs = vec![];
    for _ in 0..2 + rng.below(3) {
        let op = match rng.below(5) {
            0 => Op::Link { i: 1, l: d(rng.below(4) as u32), r: d(rng.below(4) as u32) },
            1 => Op::Unlink { i: 1, l: d(rng.below(4) as u32) },
            2 => Op::Sew { i: 2.min(dim), l: d(0), r: d(1 + rng.below(3) as u32) },
            3 => Op::WriteV { id: d(rng.below(4) as u32), v: crate::state::b3([rng.unit(), rng.unit(), 0.0]) },
            _ => Op::Unsew { i: 2.min(dim), l: d(0) },
        };
        txs.push(Tx { runner: Runner::WithErr, ops: vec![op], f1: vec![], f2: vec![], f1_attempt: 0 });
    }
    txs
}

fn with_noise_component(p: &Program) -> (Program, u32) {
    let mut q = p.clone();
    let first = q.init.n() as u32;
    q.init.grow(4);
    (q, first)
}

// ------------------------------------------------------------------------------------ check

fn run_one(tier: Tier, i: u64, seed: u64, c: &mut Counters, known: &std::collections::BTreeSet<String>) -> Vec<Violation> {
    let mut rng = Rng::new(seed);
    let mut prng_ = rng.fork(1);
    let prog = Arc::new(gen_program(&mut prng_, tier));
    c.inc("programs");
    let f2: Vec<u32> = (0..1 + rng.below(3) as u32).collect();
    let (p2, f22) = (prog.clone(), f2.clone());
    let r = execute_serial(move || {
        let seq = run_sequential(&p2);
        let comp = run_composed(&p2, &[]);
        let re = run_composed(&p2, &f22);
        (seq, comp, re)
    });
    let mut out = vec![];
    let mut push = |c: &mut Counters, class: String, msg: String, payload: Payload| {
        if known.contains(&class) {
            c.inc(&format!("known_hit_{class}"));
            return;
        }
        out.push(Violation { property: "C08".into(), class, message: format!("program {:?}: {msg}", payload.program.ops), seed, run: i, payload: serde_json::to_value(payload).unwrap(), known: None });
    };
    match r.outcome {
        Outcome::Done((seq, (cv, cfin, _), (rv, rfin, rattempts))) => {
            c.add("executions", 3);
            c.add("ops", prog.ops.len() as u64);
            let seq_ok = seq.results.iter().all(Result::is_ok);
            let comp_ok = matches!(cv, TxValue::Ok(_));
            if seq_ok || comp_ok {
                c.inc("programs_inside_statement");
                c.seen("programs_in_statement", crate::prng::mix64(seed));
                let wrote = seq.fin != prog.init;
                if wrote {
                    c.inc("programs_in_statement_changing_the_map");
                }
            } else {
                c.inc("programs_outside_statement");
            }
            c.sample(|| json!({"seed": seed, "ops": &prog.ops, "sequential_results": seq.results.iter().map(|r| format!("{r:?}")).collect::<Vec<_>>(), "composed": format!("{cv:?}"), "init_darts": prog.init.n()}));
            if rattempts > 1 {
                c.inc("probe_composed_body_reexecuted");
            }
            if let Some((class, msg)) = judge(&seq, &cv, &cfin, "composed") {
                push(c, class, msg, Payload { program: (*prog).clone(), leg: "composed".into(), f2: vec![], noise: vec![], sched: None });
            } else if let Some((class, msg)) = judge(&seq, &rv, &rfin, "reexecuted") {
                push(c, class, msg, Payload { program: (*prog).clone(), leg: "reexec".into(), f2: f2.clone(), noise: vec![], sched: None });
            } else if comp_ok && rng.chance(0.5) && !prog.ops.iter().any(mentions_null) {
                // (b'') the composed block next to a noise thread on a disjoint component
                let (q, first) = with_noise_component(&prog);
                let noise = gen_noise(&mut rng, first, q.init.dim);
                let scn = Arc::new(Scenario {
                    init: q.init.clone(),
                    order: q.order.clone(),
                    threads: vec![vec![Tx { runner: Runner::WithErr, ops: q.ops.clone(), f1: vec![], f2: vec![], f1_attempt: 0 }], noise.clone()],
                    f2: vec![],
                    pre: vec![],
                });
                for _ in 0..2 {
                    let spec = draw_sched(&mut rng, 2, 400);
                    let rr = run_concurrent(scn.clone(), spec.clone(), 2_000_000);
                    c.inc("executions");
                    c.inc("noise_runs");
                    c.add("decisions", rr.sched.multi_decisions);
                    match rr.outcome {
                        Outcome::Done(co) => {
                            // the program's own results must be those of the composed run alone
                            let same_val = co.outs[0][0].value == cv;
                            let n = prog.init.n();
                            let mut part = co.fin.clone();
                            part.beta.truncate(n);
                            part.unused.truncate(n);
                            part.vtx.truncate(n);
                            for a in part.attrs.iter_mut() {
                                if !a.is_empty() {
                                    a.truncate(n);
                                }
                            }
                            if co.outs[0][0].attempts > 1 {
                                c.inc("probe_noise_run_reexecuted_program");
                            }
                            if !same_val || part != cfin || !co.fast_match {
                                let mut s2 = spec.clone();
                                s2.replay = Some(rr.sched.trace.clone());
                                let msg = if !same_val {
                                    format!("next to a thread writing only to a disjoint component the single transaction returns {:?} instead of {cv:?}", co.outs[0][0].value)
                                } else if part != cfin {
                                    format!("next to a thread writing only to a disjoint component the program's part of the map differs: {}", part.diff(&cfin))
                                } else {
                                    format!("concurrent run does not match its serial replay: {}", co.fast_detail)
                                };
                                push(c, "noise-changes-outcome".into(), msg, Payload { program: (*prog).clone(), leg: "noise".into(), f2: vec![], noise: noise.clone(), sched: Some(s2) });
                                break;
                            }
                        }
                        Outcome::Panic(m) => {
                            c.inc("noise_run_panics");
                            c.note("noise_run_panics", || m.clone());
                        }
                        _ => c.inc("noise_run_blocked"),
                    }
                }
            }
        }
        Outcome::Panic(m) => {
            c.inc("program_panics");
            c.note("program_panics", || format!("seed {seed} ops {:?}: {m}", prog.ops));
        }
        other => {
            c.inc("program_blocked");
            let kind = match other {
                Outcome::Deadlock(_) => "deadlock",
                Outcome::StepBound => "step bound",
                Outcome::Livelock => "livelock",
                _ => "?",
            };
            c.note("program_blocked", || format!("seed {seed} ({kind}) ops {:?}", prog.ops));
            // which leg blocks? (a kernel waiting in `retry()` for a value nobody will write)
            let p3 = prog.clone();
            let seq = execute_serial(move || run_sequential(&p3));
            let p3 = prog.clone();
            let comp = execute_serial(move || run_composed(&p3, &[]));
            match (seq.outcome, comp.outcome) {
                (Outcome::Done(sq), Outcome::Deadlock(_) | Outcome::Livelock) if sq.results.iter().all(Result::is_ok) => {
                    push(c, "composed-blocks-sequence-succeeds".into(), "every operation succeeds in its own transaction, but the single transaction never finishes".into(), Payload { program: (*prog).clone(), leg: "composed".into(), f2: vec![], noise: vec![], sched: None });
                }
                (Outcome::Deadlock(_) | Outcome::Livelock, Outcome::Done((TxValue::Ok(_), _, _))) => {
                    push(c, "composed-succeeds-sequence-blocks".into(), "all operations succeed inside one transaction, but run one per transaction some operation never finishes".into(), Payload { program: (*prog).clone(), leg: "composed".into(), f2: vec![], noise: vec![], sched: None });
                }
                (Outcome::Deadlock(_) | Outcome::Livelock, Outcome::Deadlock(_) | Outcome::Livelock) => c.inc("program_blocked_in_both_legs"),
                _ => c.inc("program_blocked_other"),
            }
        }
    }
    out
}

pub fn digest(n: u64) {
    let known = Default::default();
    digest_runs("C08", n, |i, seed, c| run_one(Tier::Quick, i, seed, c, &known));
}

pub fn check(tier: Tier) -> i32 {
    let n = scaled(match tier {
        Tier::Quick => 30_000,
        Tier::Thorough => 3_000_000,
    });
    let known = known_classifiers("C08");
    let known_set: std::collections::BTreeSet<String> = known.keys().cloned().collect();
    let (counters, viols, wall) = parallel_runs("C08", n, |i, seed, c| run_one(tier, i, seed, c, &known_set));
    let rep = Report {
        property: "C08".into(),
        tier,
        level: "exploration",
        wall_s: wall,
        evaluations: counters.get("executions"),
        distinct_nontrivial: counters.n_distinct("programs_in_statement"),
        rule: "one evaluation = one execution of a generated straight-line program of 2-8 real operations (2D/3D core operations and transactional kernels, later operations biased to read what earlier ones wrote) in one of the legs: one operation per transaction, all in one transaction, all in one transaction under forced re-executions, all in one transaction next to a noise thread on a disjoint component under a seeded schedule; distinct_nontrivial = distinct programs inside the statement (all operations succeed in the sequence or in the single transaction)".into(),
        assumptions: vec![
            "programs and initial maps are sampled".into(),
            "the noise thread only touches darts appended after the program's map, which no operation of the program can reach".into(),
        ],
        extra: json!({"faults": {"F2_forced_revalidation": {"composed_body_reexecuted": counters.get("probe_composed_body_reexecuted")}}}),
        counters,
        exhaustive: false,
    };
    let mut hits: BTreeMap<String, (KnownFinding, u64)> = BTreeMap::new();
    let mut real = run_stored_replays("C08", &|v| reproduces_v(v).is_some(), &mut hits);
    for (cls, k) in &known {
        let n = rep.counters.get(&format!("known_hit_{cls}"));
        if n > 0 {
            hits.entry(cls.clone()).or_insert((k.clone(), 0)).1 += n;
        }
    }
    let mut seen = std::collections::BTreeSet::new();
    for v in viols {
        if seen.insert(v.class.clone()) {
            real.push(minimise(v));
        }
    }
    conclude(&rep, real, &hits)
}

fn reproduces(p: &Payload) -> Option<(String, String)> {
    match p.leg.as_str() {
        "composed" | "reexec" => {
            let p2 = p.clone();
            let r = execute_serial(move || (run_sequential(&p2.program), run_composed(&p2.program, &p2.f2)));
            match r.outcome {
                Outcome::Done((seq, (v, fin, _))) => judge(&seq, &v, &fin, if p.leg == "composed" { "composed" } else { "reexecuted" }),
                Outcome::Deadlock(_) | Outcome::Livelock => {
                    let p2 = p.clone();
                    let seq = execute_serial(move || run_sequential(&p2.program));
                    let p2 = p.clone();
                    let comp = execute_serial(move || run_composed(&p2.program, &p2.f2));
                    match (seq.outcome, comp.outcome) {
                        (Outcome::Done(sq), Outcome::Deadlock(_) | Outcome::Livelock) if sq.results.iter().all(Result::is_ok) => {
                            Some(("composed-blocks-sequence-succeeds".into(), "every operation succeeds in its own transaction, but the single transaction never finishes".into()))
                        }
                        (Outcome::Deadlock(_) | Outcome::Livelock, Outcome::Done((TxValue::Ok(_), _, _))) => {
                            Some(("composed-succeeds-sequence-blocks".into(), "all operations succeed inside one transaction, but run one per transaction some operation never finishes".into()))
                        }
                        _ => None,
                    }
                }
                _ => None,
            }
        }
        _ => {
            if p.program.ops.iter().any(mentions_null) {
                return None;
            }
            let p2 = p.clone();
            let r = execute_serial(move || run_composed(&p2.program, &[]));
            let Outcome::Done((cv, cfin, _)) = r.outcome else { return None };
            let (q, _) = with_noise_component(&p.program);
            let scn = Arc::new(Scenario {
                init: q.init.clone(),
                order: q.order.clone(),
                threads: vec![vec![Tx { runner: Runner::WithErr, ops: q.ops.clone(), f1: vec![], f2: vec![], f1_attempt: 0 }], p.noise.clone()],
                f2: vec![],
                pre: vec![],
            });
            let rr = run_concurrent(scn, p.sched.clone()?, 2_000_000);
            let Outcome::Done(co) = rr.outcome else { return None };
            let n = p.program.init.n();
            let mut part = co.fin.clone();
            part.beta.truncate(n);
            part.unused.truncate(n);
            part.vtx.truncate(n);
            for a in part.attrs.iter_mut() {
                if !a.is_empty() {
                    a.truncate(n);
                }
            }
            if co.outs[0][0].value != cv || part != cfin || !co.fast_match {
                Some(("noise-changes-outcome".into(), "outcome of the single transaction depends on a thread writing to a disjoint component".into()))
            } else {
                None
            }
        }
    }
}

fn reproduces_v(v: &Violation) -> Option<(String, String)> {
    let p: Payload = serde_json::from_value(v.payload.clone()).ok()?;
    reproduces(&p).filter(|(c, _)| *c == v.class)
}

fn minimise(mut v: Violation) -> Violation {
    let Ok(mut p) = serde_json::from_value::<Payload>(v.payload.clone()) else { return v };
    if p.leg == "noise" {
        return v;
    }
    let class = v.class.clone();
    let mut k = 0;
    while k < p.program.ops.len() && p.program.ops.len() > 1 {
        let mut q = p.clone();
        q.program.ops.remove(k);
        if reproduces(&q).map(|(c, _)| c == class).unwrap_or(false) {
            p = q;
        } else {
            k += 1;
        }
    }
    if let Some((_, m)) = reproduces(&p) {
        v.message = format!("program {:?}: {m}", p.program.ops);
        v.payload = serde_json::to_value(&p).unwrap();
    }
    v
}

pub fn replay(v: &Violation) -> i32 {
    match reproduces_v(v) {
        Some((class, m)) => {
            println!("REPRODUCED property=C08 class={class}: {m}");
            1
        }
        None => {
            println!("not reproduced");
            0
        }
    }
}
