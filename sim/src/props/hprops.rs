//! History-based properties on one client: C01, C02 (structural integrity), C03 (ids, orbits,
//! iterators), C04, C05 (data follows cells), C18 (dart allocation). One driver, several
//! workload flavours; each check reports only findings of its own property.

use std::collections::BTreeMap;
use std::sync::{Arc, Mutex};

use serde::{Deserialize, Serialize};
use serde_json::json;

use crate::attrs::*;
use crate::exec::{Outcome, execute_serial};
use crate::gen2::*;
use crate::gen3;
use crate::harness::*;
use crate::hist::*;
use crate::ops::{Op, Runner, Tx};
use crate::prng::Rng;
use crate::state::State;

#[derive(Clone, Copy, Debug, PartialEq, Eq, Serialize, Deserialize)]
pub enum Flavour {
    /// every editing call, about half failing (C01/C02)
    Edits,
    /// sew/unsew heavy, several attribute kinds, F1 (C04/C05)
    Sews,
    /// allocation / removal / reuse interleaved with edits and data writes (C18)
    Alloc,
    /// edits with frequent id/orbit/iterator cross-checks (C03)
    Queries,
    /// one polygon face (plus neighbours) and triangulation kernels (C13)
    Triangulate,
    /// embedded maps and vertex insertions on edges (C14)
    Insert,
    /// triangle meshes and swap / cut / collapse histories (C15)
    Remesh,
}

#[derive(Clone, Debug, Serialize, Deserialize)]
pub struct Payload {
    pub flavour: Flavour,
    pub history: History,
}

fn checks_for(prop: &str) -> Checks {
    match prop {
        "C01" | "C02" => Checks { wf: true, sew_effect: prop == "C02", ..Default::default() },
        "C03" => Checks { ids_orbits: true, ..Default::default() },
        "C04" | "C05" => Checks { sew_effect: true, ..Default::default() },
        "C18" => Checks { alloc: true, ..Default::default() },
        "C06" => Checks { error_unchanged: true, ..Default::default() },
        "C13" | "C14" | "C15" => Checks { kernels: true, ..Default::default() },
        _ => Checks::default(),
    }
}

fn single(op: Op, rng: &mut Rng) -> Tx {
    let runner = match rng.below(8) {
        0..=2 => Runner::WithErr,
        3 => Runner::ControlRetry,
        4 => Runner::ControlAbortAfter(1 + rng.below(2) as u8),
        _ => {
            if crate::ops::has_force_form(&op) { Runner::Force } else { Runner::WithErr }
        }
    };
    Tx { runner, ops: vec![op], f1: vec![], f2: vec![], f1_attempt: 0 }
}

/// Next step of a history, drawn while looking at the current state.
pub fn gen_step(rng: &mut Rng, i: usize, s: &State, flavour: Flavour, max_steps: usize, uniq: &mut u64) -> Option<Step> {
    if i >= max_steps {
        return None;
    }
    if matches!(flavour, Flavour::Triangulate | Flavour::Insert | Flavour::Remesh) {
        return gen_kernel_step(rng, s, flavour);
    }
    let g = OpGen::new(rng, s, 3);
    let p_x = match flavour {
        Flavour::Alloc => 0.35,
        Flavour::Edits => 0.10,
        _ => 0.04,
    };
    if rng.chance(p_x) || g.in_use.is_empty() {
        let free: Vec<u32> = g.in_use.iter().copied().filter(|&d| s.is_free(d)).collect();
        // now and then a removal that must be refused (linked or already removed dart)
        if rng.chance(0.12) {
            let bad: Vec<u32> = (1..s.n() as u32).filter(|&d| s.unused[d as usize] || !s.is_free(d)).collect();
            if !bad.is_empty() {
                return Some(Step::RemoveAnyDart(*rng.pick(&bad)));
            }
        }
        // the transactional removal (what the kernels use), on a free in-use dart
        if rng.chance(0.15) && !free.is_empty() && g.in_use.len() > 3 {
            let d = *rng.pick(&free);
            return Some(Step::Tx(crate::ops::Tx { runner: crate::ops::Runner::WithErr, ops: vec![crate::ops::Op::RemoveDartTx { d }], f1: vec![], f2: vec![], f1_attempt: 0 }));
        }
        return Some(match rng.below(6) {
            0 => Step::AddFreeDart,
            1 => Step::AddFreeDarts(1 + rng.below(5) as u32),
            2 | 3 => Step::InsertFreeDart,
            _ => {
                if s.n() > 60 && free.is_empty() {
                    Step::InsertFreeDart
                } else if !free.is_empty() && g.in_use.len() > 3 {
                    Step::RemoveFreeDart(*rng.pick(&free))
                } else if s.n() < 60 {
                    Step::AddFreeDart
                } else {
                    Step::InsertFreeDart
                }
            }
        });
    }
    let p_topo = match flavour {
        Flavour::Edits => 0.85,
        Flavour::Sews => 0.75,
        Flavour::Alloc => 0.5,
        Flavour::Queries => 0.8,
        _ => 0.5,
    };
    let op = if rng.chance(p_topo) {
        let mut op = g.topo(rng);
        if flavour == Flavour::Sews {
            // prefer the attribute-carrying forms
            op = match op {
                Op::Link { i, l, r } if rng.chance(0.8) => Op::Sew { i, l, r },
                Op::Unlink { i, l } if rng.chance(0.8) => Op::Unsew { i, l },
                o => o,
            };
        }
        op
    } else {
        // data writes only (reads do not change anything a later oracle could see)
        loop {
            let op = g.data(rng, uniq);
            if matches!(op, Op::WriteV { .. } | Op::RemoveV { .. } | Op::WriteA { .. } | Op::RemoveA { .. }) || rng.chance(0.2) {
                break op;
            }
        }
    };
    let mut tx = single(op, rng);
    if flavour == Flavour::Edits && rng.chance(0.15) {
        // several calls in one transaction, the later ones on the darts the first one touched
        // (a call must see the pending writes of its predecessors)
        if let Some(x) = match &tx.ops[0] {
            Op::Link { l, .. } | Op::Sew { l, .. } | Op::Unlink { l, .. } | Op::Unsew { l, .. } => Some(*l),
            _ => None,
        } {
            let mut cur = s.clone();
            let mut ops = vec![tx.ops[0].clone()];
            for _ in 0..1 + rng.below(2) {
                match ops.last().unwrap() {
                    Op::Link { i, l, r } | Op::Sew { i, l, r } => {
                        let _ = cur.link(*i, *l, *r);
                    }
                    Op::Unlink { i, l } | Op::Unsew { i, l } => {
                        let _ = cur.unlink(*i, *l);
                    }
                    _ => {}
                }
                let in_use: Vec<u32> = (1..cur.n() as u32).filter(|&d| !cur.unused[d as usize]).collect();
                let y = if rng.chance(0.7) { x } else { *rng.pick(&in_use) };
                let mut cands = crate::props::c07::edits_involving(&cur, y, &in_use);
                if cands.is_empty() {
                    break;
                }
                ops.push(cands.swap_remove(rng.below(cands.len())));
            }
            if ops.len() > 1 {
                tx = crate::ops::Tx { runner: if rng.chance(0.5) { crate::ops::Runner::WithErr } else { crate::ops::Runner::ControlRetry }, ops, f1: vec![], f2: vec![], f1_attempt: 0 };
            }
        }
    }
    if s.kinds != 0 && matches!(flavour, Flavour::Sews | Flavour::Edits | Flavour::Queries) && rng.chance(0.12) {
        tx.f1 = vec![1 + rng.below(5) as u32];
    }
    if rng.chance(0.15) {
        tx.f2 = (0..1 + rng.below(2) as u32).collect();
    }
    Some(Step::Tx(tx))
}

fn gen_kernel_step(rng: &mut Rng, s: &State, flavour: Flavour) -> Option<Step> {
    let pool = free_pool(s);
    let need = match flavour {
        Flavour::Remesh => 6,
        Flavour::Insert => 6,
        _ => 0,
    };
    if pool.len() < need && need > 0 {
        return Some(if rng.chance(0.5) || s.unused.iter().all(|u| !u) { Step::AddFreeDarts(6 + rng.below(4) as u32) } else { Step::InsertFreeDart });
    }
    let which = match flavour {
        Flavour::Remesh => [0, 0, 1, 1, 2, 3, 3][rng.below(7)],
        Flavour::Insert => [4, 5, 5][rng.below(3)],
        _ => 6 + rng.below(4),
    };
    let op = if flavour == Flavour::Triangulate {
        // target the polygon faces (4+ sides) first
        let pf = s.partition(2);
        let mut polys: Vec<u32> = (1..s.n() as u32).filter(|&d| !s.unused[d as usize] && !s.is_free(d) && pf[d as usize] == d && s.face_walk(d, true).fwd.len() >= 4).collect();
        if polys.is_empty() || rng.chance(0.05) {
            kernel_op(rng, s, Some(which))?
        } else {
            rng.shuffle(&mut polys);
            let f = polys[0];
            let n = s.face_walk(f, true).fwd.len();
            let mut sp = pool.clone();
            rng.shuffle(&mut sp);
            let k = if rng.chance(0.93) { 2 * (n - 3) } else { 2 * (n - 3) + 1 };
            let nd: Vec<u32> = sp.into_iter().take(k).collect();
            let area = {
                let pv = s.partition(0);
                let pts: Vec<crate::mesh::P> = s.face_walk(f, true).fwd.iter().filter_map(|&d| s.vtx[pv[d as usize] as usize].map(|v| (v[0], v[1]))).collect();
                crate::mesh::signed_area(&pts)
            };
            match which {
                6 => Op::Fan { f, nd },
                7 => Op::FanConvex { f, nd },
                _ => {
                    // mostly the announced orientation
                    let ccw = (area > 0.0) == rng.chance(0.9);
                    if ccw { Op::EarclipCcw { f, nd } } else { Op::EarclipCw { f, nd } }
                }
            }
        }
    } else {
        kernel_op(rng, s, Some(which))?
    };
    let runner = if rng.chance(0.7) { Runner::WithErr } else { Runner::ControlAbortAfter(1) };
    let mut tx = Tx { runner, ops: vec![op], f1: vec![], f2: vec![], f1_attempt: 0 };
    if rng.chance(0.2) {
        tx.f2 = vec![0];
    }
    Some(Step::Tx(tx))
}

pub fn gen_init(rng: &mut Rng, dim: u8, flavour: Flavour, tier: Tier) -> State {
    match flavour {
        Flavour::Remesh => {
            // no anchors / the three anchor kinds / edge and face anchors only (at this commit
            // `cut_inner_edge` cannot succeed when VertexAnchor is registered: the new vertex has
            // no anchor while it is sewn in and VertexAnchor has no `merge_incomplete`)
            let kinds = match rng.below(5) {
                0 | 1 => 0,
                2 | 3 => (1 << K_VA) | (1 << K_EA) | (1 << K_FA),
                _ => (1 << K_EA) | (1 << K_FA),
            };
            let max_n = if tier == Tier::Thorough { 4 } else { 3 };
            let mut s = kernel_state(rng, kinds, true, max_n);
            if rng.chance(0.8) {
                let pv = s.partition(0);
                for d in 1..s.n() {
                    if s.vtx[d].is_none() && !s.is_free(d as u32) && pv[d] == d as u32 {
                        s.vtx[d] = Some(crate::state::b3([d as f64 * 0.37 + 11.0, 7.0 - d as f64 * 0.11, 0.0]));
                    }
                }
            }
            return s;
        }
        Flavour::Insert => {
            let kinds = 0;
            return if rng.chance(0.5) {
                let tri = rng.chance(0.5);
                kernel_state(rng, kinds, tri, 2)
            } else {
                let n = 3 + rng.below(14);
                let mut s = random_state_2d(rng, n, kinds);
                let pv = s.partition(0);
                for d in 1..s.n() as u32 {
                    if !s.unused[d as usize] && pv[d as usize] == d && s.vtx[d as usize].is_none() && rng.chance(0.9) {
                        s.vtx[d as usize] = Some(rand_point(rng, 2));
                    }
                }
                let extra = 4 + rng.below(6);
                s.grow(extra);
                s
            };
        }
        Flavour::Triangulate => {
            let n = 4 + rng.below(9);
            let kind = [0, 1, 2, 3, 3][rng.below(5)];
            let cw = rng.chance(0.4);
            let mesh = polygon_mesh(rng, n, kind, cw);
            let extra = 2 * (n - 3) + rng.below(3);
            let (s, _) = state_from_mesh(&mesh, 0, extra);
            return if rng.chance(0.5) { relabel_random(rng, &s) } else { s };
        }
        _ => {}
    }
    if dim == 3 {
        let s = gen3::gen_init_3d(rng, flavour, tier);
        // complexes are numbered cell by cell; under a random renumbering "which side holds the
        // smaller darts" varies
        return if rng.chance(0.4) { relabel_random(rng, &s) } else { s };
    }
    let kinds = match flavour {
        Flavour::Sews => {
            let mut k = rand_kinds_2d(rng);
            if k == 0 {
                k = 1 << K_WV;
            }
            k
        }
        Flavour::Alloc => (1 << K_WV) | (1 << K_WE) | if rng.chance(0.5) { 1 << K_TV } else { 1 << K_WF },
        _ => rand_kinds_2d(rng),
    };
    let big = tier == Tier::Thorough && rng.chance(0.1);
    match rng.below(10) {
        0 | 1 => {
            let (nx, ny) = if big { (2 + rng.below(4), 2 + rng.below(4)) } else { (1 + rng.below(3), 1 + rng.below(2)) };
            let split = rng.chance(0.5);
            let mesh = grid_mesh(rng, nx, ny, split, 0.2);
            let extra = rng.below(5);
            let (mut s, _) = state_from_mesh(&mesh, kinds, extra);
            let keep = s.vtx.clone();
            fill_values(rng, &mut s);
            if rng.chance(0.7) {
                s.vtx = keep;
            }
            s
        }
        _ => {
            let n = if big { 25 + rng.below(150) } else { 3 + rng.below(22) };
            random_state_2d(rng, n, kinds)
        }
    }
}

struct Cfg {
    known: std::collections::BTreeSet<String>,
    prop: &'static str,
    dim: u8,
    flavour: Flavour,
    quick_runs: u64,
    thorough_runs: u64,
    max_steps: usize,
    rule: &'static str,
}

fn run_one(cfg: &Cfg, tier: Tier, i: u64, seed: u64, c: &mut Counters) -> Vec<Violation> {
    let mut rng = Rng::new(seed);
    let mut irng = rng.fork(1);
    let init = gen_init(&mut irng, cfg.dim, cfg.flavour, tier);
    let order = rand_order(&mut irng, init.kinds);
    let f2: Vec<u32> = vec![];
    let c03_every = if cfg.prop == "C03" { 1 + rng.below(4) as u32 } else { 0 };
    let h = History { init, order, steps: vec![], f2: f2.clone(), c03_every };
    let max_steps = 1 + rng.below(cfg.max_steps);
    let flavour = cfg.flavour;
    let checks = checks_for(cfg.prop);
    let h2 = Arc::new(h.clone());
    let srng = Mutex::new((rng.fork(2), 0u64));
    let rec: Arc<Mutex<Vec<Step>>> = Arc::new(Mutex::new(vec![]));
    let rec2 = rec.clone();
    let r = execute_serial(move || {
        let mut g = srng.lock().unwrap();
        let (ref mut rr, ref mut uniq) = *g;
        run_history_with(&h2, checks, false, &mut |si, st| {
            let s = gen_step(rr, si, st, flavour, max_steps, uniq);
            if let Some(s) = &s {
                rec2.lock().unwrap().push(s.clone());
            }
            s
        })
    });
    c.inc("histories");
    c.add("stm_attempts", r.stm.attempts);
    c.add("stm_commits", r.stm.commits);
    c.add("f2_fired", r.stm.forced_failures);
    if !f2.is_empty() {
        c.inc("f2_configured");
    }
    let mut out = vec![];
    match r.outcome {
        Outcome::Done(o) => {
            let p = &o.probes;
            c.add("steps", p.steps);
            c.add("tx_ok", p.tx_ok);
            c.add("tx_err", p.tx_err);
            c.add("sew_ok", p.sew_ok);
            c.add("unsew_ok", p.unsew_ok);
            c.add("probe_merges_checked", p.merges);
            c.add("probe_splits_checked", p.splits);
            c.add("probe_one_sided_merges", p.one_sided);
            c.add("probe_merges_from_none", p.from_none);
            c.add("probe_hedged_calls", p.hedged);
            c.add("model_adoptions_multi_merge", p.multi);
            c.add("probe_id_migrated_far", p.migrated_far);
            for a in 0..4 {
                c.add(&format!("probe_two_sew_arm_{a}"), p.arms[a]);
            }
            c.add("probe_rejection_failed_call", p.rejections_made_call_fail);
            c.add("probe_tx_reexecuted", p.reexecuted);
            c.add("c03_queries", p.c03_queries);
            c.add("probe_slot_reuse", p.alloc_reuse);
            c.add("probe_illegal_removals_tried", p.illegal_removals);
            c.add("probe_alloc_append", p.alloc_append);
            c.add("attr_callbacks", p.callbacks);
            c.add("kernel_premise_failed", p.k_premise_failed);
            c.add("kernel_success_checked", p.k_checked_success);
            c.add("kernel_refusal_checked", p.k_checked_refusal);
            c.add("kernel_must_succeed_cases", p.k_must_succeed);
            c.add("probe_kernel_ok_on_edge_between_differently_anchored_faces", p.k_interface_edge);
            for (k, v) in &p.k_ok {
                c.add(&format!("kernel_ok_{k}"), *v);
            }
            for h in &p.states {
                c.seen("states", *h);
            }
            let f1c = o.steps.iter().filter(|s| matches!(s, Step::Tx(t) if !t.f1.is_empty())).count() as u64;
            c.add("f1_configured", f1c);
            let f2c = o.steps.iter().filter(|s| matches!(s, Step::Tx(t) if !t.f2.is_empty())).count() as u64;
            c.add("f2_configured", f2c);
            c.sample(|| json!({"seed": seed, "init": &h.init, "steps": &o.steps}));
            let extra_findings: Vec<StepFinding> = vec![];
            let mut seen_classes = std::collections::BTreeSet::new();
            for f in o.findings.iter().chain(extra_findings.iter()) {
                if f.finding.prop == "HARNESS" {
                    panic!("{}", f.finding.msg);
                }
                if f.finding.prop != cfg.prop {
                    c.inc(&format!("findings_of_other_property_{}", f.finding.prop));
                    continue;
                }
                if !seen_classes.insert(f.finding.class.clone()) {
                    continue;
                }
                if cfg.known.contains(&f.finding.class) {
                    // listed known finding: counted, not an alarm; other findings of the same
                    // history are still reported
                    c.inc(&format!("known_hit_{}", f.finding.class));
                    continue;
                }
                let mut hh = h.clone();
                hh.steps = o.steps[..(f.step + 1).min(o.steps.len())].to_vec();
                out.push(Violation {
                    property: cfg.prop.into(),
                    class: f.finding.class.clone(),
                    message: f.finding.msg.clone(),
                    seed,
                    run: i,
                    payload: serde_json::to_value(Payload { flavour, history: hh }).unwrap(),
                    known: None,
                });
            }
        }
        Outcome::Panic(m) => {
            c.inc("history_panics");
            c.note("history_panics", || format!("seed {seed}: {m}"));
            let mut hh = h.clone();
            hh.steps = rec.lock().unwrap().clone();
            out.push(Violation { property: cfg.prop.into(), class: "panic".into(), message: format!("a public call panicked during a single-client history (last step {:?}): {m}", hh.steps.last()), seed, run: i, payload: serde_json::to_value(Payload { flavour, history: hh }).unwrap(), known: None });
        }
        Outcome::Deadlock(_) | Outcome::StepBound | Outcome::Livelock => {
            c.inc("history_blocked");
            let last = rec.lock().unwrap().last().cloned();
            c.note("history_blocked", || format!("seed {seed}: last step {last:?}"));
            if std::env::var("VERIF_DUMP_BLOCKED").is_ok() {
                let mut hh = h.clone();
                hh.steps = rec.lock().unwrap().clone();
                let v = Violation { property: cfg.prop.into(), class: "blocked".into(), message: String::new(), seed, run: i, payload: serde_json::to_value(Payload { flavour, history: hh }).unwrap(), known: None };
                let _ = std::fs::write(format!("/tmp/blocked-{seed}.json"), serde_json::to_string(&v).unwrap());
            }
        }
    }
    out
}

fn cfgs_for(prop: &str) -> Vec<Cfg> {
    match prop {
        "C03" | "C18" | "C06" => {
            let a = cfg_for(prop);
            let mut b = cfg_for(prop);
            b.dim = 3;
            b.quick_runs = a.quick_runs / 2;
            b.thorough_runs = a.thorough_runs / 2;
            vec![a, b]
        }
        _ => vec![cfg_for(prop)],
    }
}

fn cfg_for(prop: &str) -> Cfg {
    match prop {
        "C01" => Cfg { known: Default::default(), prop: "C01", dim: 2, flavour: Flavour::Edits, quick_runs: 40_000, thorough_runs: 4_000_000, max_steps: 40,
            rule: "one evaluation = one seeded single-client history of up to 40 public editing calls (allocation, removal incl. removals of linked or already removed darts that must be refused, link/unlink/sew/unsew in both forms, succeeding and failing, with F1/F2 faults) on a generated well-formed 2-map, the well-formedness predicate evaluated on a full snapshot after every call; distinct_nontrivial = distinct full map states reached after a call (hash of the whole snapshot)" },
        "C04" => Cfg { known: Default::default(), prop: "C04", dim: 2, flavour: Flavour::Sews, quick_runs: 40_000, thorough_runs: 4_000_000, max_steps: 30,
            rule: "one evaluation = one seeded history of sew/unsew-heavy calls on a 2-map with 1-4 attribute kinds; every successful sew/unsew is compared with the partition-based migration oracle; distinct_nontrivial = distinct full map states reached" },
        "C18" => Cfg { known: Default::default(), prop: "C18", dim: 2, flavour: Flavour::Alloc, quick_runs: 30_000, thorough_runs: 3_000_000, max_steps: 40,
            rule: "one evaluation = one seeded history alternating allocation/removal/reuse with edits and data writes, incl. removals of linked or already removed darts (the refusal, a panic, is caught inside the history); distinct_nontrivial = distinct full map states reached" },
        "C03" => Cfg { known: Default::default(), prop: "C03", dim: 2, flavour: Flavour::Queries, quick_runs: 20_000, thorough_runs: 2_000_000, max_steps: 25,
            rule: "one evaluation = one seeded history whose reached states are cross-checked (every dart, every policy) against the definition-level model; distinct_nontrivial = distinct full map states reached" },
        "C13" => Cfg { known: Default::default(), prop: "C13", dim: 2, flavour: Flavour::Triangulate, quick_runs: 40_000, thorough_runs: 4_000_000, max_steps: 2,
            rule: "one evaluation = one seeded run of a triangulation kernel (fan, fan-convex, ear clipping in both orientations; right and wrong spare-dart counts; forced re-execution) on a generated simple polygon with 4-12 sides (strictly convex, star-shaped with reflex vertices, random radial, general simple polygons obtained by 2-opt untangling of random points; both orientations; now and then an unusable spare dart; isolated or with neighbour triangles glued on a random subset of sides), judged by the statement-level triangulation oracle; distinct_nontrivial = distinct full map states reached" },
        "C14" => Cfg { known: Default::default(), prop: "C14", dim: 2, flavour: Flavour::Insert, quick_runs: 40_000, thorough_runs: 4_000_000, max_steps: 6,
            rule: "one evaluation = one seeded history of vertex insertions (single and k = 1..3, valid and invalid spare darts, counts and positions; forced re-execution) on embedded well-formed 2-maps incl. dangling darts, 1-free/0-free ends, boundary and interior edges, judged by the exact subdivision oracle (all other darts incl. dart 0 bit identical); distinct_nontrivial = distinct full map states reached" },
        "C15" => Cfg { known: Default::default(), prop: "C15", dim: 2, flavour: Flavour::Remesh, quick_runs: 30_000, thorough_runs: 3_000_000, max_steps: 12,
            rule: "one evaluation = one seeded history of swap / cut / collapse calls on a perturbed split grid (no anchors, vertex+edge+face anchors, edge+face anchors; one material or two with an interior interface curve; now and then an unusable spare dart), each successful call compared with the geometric reference model (expected set of oriented coordinate triangles, adjacency = geometric adjacency, counts, area, flags, anchors of surviving cells and of the parts of subdivided cells); distinct_nontrivial = distinct full map states reached" },
        "C06" => Cfg { known: Default::default(), prop: "C06", dim: 2, flavour: Flavour::Edits, quick_runs: 16_000, thorough_runs: 1_600_000, max_steps: 30,
            rule: "histories leg of C06" },
        "C02" => Cfg { known: Default::default(), prop: "C02", dim: 3, flavour: Flavour::Edits, quick_runs: 25_000, thorough_runs: 2_500_000, max_steps: 30,
            rule: "one evaluation = one seeded single-client history of up to 30 public editing calls (allocation, removal, link/unlink/sew/unsew in dimensions 1-3, both forms, with F1/F2 faults) on a generated polyhedral 3-map (tetrahedra, pyramids, prisms, hexahedra; some faces unglued or opened); well-formedness incl. the mirror condition evaluated on a full snapshot after every call, and every successful 3-link/3-sew compared with the model's mirrorability judgement; distinct_nontrivial = distinct full map states reached" },
        "C05" => Cfg { known: Default::default(), prop: "C05", dim: 3, flavour: Flavour::Sews, quick_runs: 25_000, thorough_runs: 2_500_000, max_steps: 25,
            rule: "one evaluation = one seeded history of sew/unsew-heavy calls on a closed-face polyhedral 3-map with 1-4 attribute kinds; every successful sew/unsew is compared with the partition-based migration oracle, unsews on fully embedded meshes must succeed; distinct_nontrivial = distinct full map states reached" },
        _ => panic!("no history configuration for {prop}"),
    }
}

pub fn digest(prop: &str, n: u64) {
    for cfg in &cfgs_for(prop) {
        digest_runs(&format!("{}-{}d", cfg.prop, cfg.dim), n, |i, seed, c| run_one(cfg, Tier::Quick, i, seed, c));
    }
}

pub fn check(prop: &str, tier: Tier) -> i32 {
    let (total, viols, wall, rule) = collect(prop, tier);
    finish(prop, tier, total, viols, wall, rule)
}

/// Run the history batches of `prop` and return raw results (used by C06, which adds its own
/// fault-enumeration leg).
pub fn collect(prop: &str, tier: Tier) -> (Counters, Vec<Violation>, f64, String) {
    let mut cfgs: Vec<Cfg> = cfgs_for(prop);
    for c in &mut cfgs {
        c.known = known_classifiers(prop).keys().cloned().collect();
    }
    let mut total = Counters::new();
    let mut viols = vec![];
    let mut wall = 0.0;
    for cfg in &cfgs {
        let n = scaled(match tier {
            Tier::Quick => cfg.quick_runs,
            Tier::Thorough => cfg.thorough_runs,
        });
        let (c, v, w) = parallel_runs(&format!("{}-{}d", cfg.prop, cfg.dim), n, |i, seed, c| run_one(cfg, tier, i, seed, c));
        total.merge(c);
        viols.extend(v);
        wall += w;
    }
    (total, viols, wall, cfgs[0].rule.to_string())
}

fn finish(prop: &str, tier: Tier, mut total: Counters, viols: Vec<Violation>, wall: f64, rule: String) -> i32 {
    for v in &viols {
        total.inc(&format!("candidate_class_{}", v.class));
    }
    if std::env::var("VERIF_DEBUG").is_ok() {
        let mut seen = std::collections::BTreeSet::new();
        for v in &viols {
            if seen.insert(v.class.clone()) {
                eprintln!("DEBUG candidate class={} seed={} run={}: {}", v.class, v.seed, v.run, v.message);
            }
        }
    }
    let rep = Report {
        property: prop.into(),
        tier,
        level: "exploration",
        wall_s: wall,
        evaluations: total.get("histories"),
        distinct_nontrivial: total.n_distinct("states"),
        rule,
        assumptions: vec![
            "oracles are transcriptions of the property statement; where the statement is silent the model adopts the implementation's values (counted as adoptions/hedged calls)".into(),
            "single simulated client on the instrumented STM (forced re-executions via F2); concurrent behaviour is covered by C07's serial-order oracle".into(),
            "sampled histories and map shapes, no enumeration".into(),
        ],
        extra: json!({"faults": {
            "F1_attr_fail": {"configured": total.get("f1_configured"), "made_call_fail": total.get("probe_rejection_failed_call")},
            "F2_forced_revalidation": {"configured": total.get("f2_configured"), "fired": total.get("f2_fired")},
        }}),
        counters: total,
        exhaustive: false,
    };
    // known findings
    let known = known_classifiers(prop);
    let mut hits: BTreeMap<String, (KnownFinding, u64)> = BTreeMap::new();
    let mut real = run_stored_replays(prop, &|v| replay_reproduces(v), &mut hits);
    for (cls, k) in &known {
        let n = rep.counters.get(&format!("known_hit_{cls}"));
        if n > 0 {
            hits.entry(cls.clone()).or_insert((k.clone(), 0)).1 += n;
        }
    }
    real.extend(viols);
    // minimise the first violation of each class
    let mut minimised = vec![];
    let mut seen = std::collections::BTreeSet::new();
    for v in real {
        if seen.insert(v.class.clone()) {
            minimised.push(minimise(v));
        }
    }
    conclude(&rep, minimised, &hits)
}

fn first_finding(p: &Payload, prop: &str, class: &str) -> Option<(usize, String)> {
    let h = Arc::new(p.history.clone());
    let n = p.history.steps.len();
    match run_history(h, checks_for(prop), false) {
        HistResult::Done(o) => o.findings.iter().find(|f| f.finding.prop == prop && f.finding.class == class).map(|f| (f.step, f.finding.msg.clone())),
        HistResult::Panic(m) if class == "panic" => Some((n.saturating_sub(1), format!("a public call panicked during a single-client history: {m}"))),
        _ => None,
    }
}

/// Greedy step removal while the same (property, class) finding persists.
pub fn minimise(mut v: Violation) -> Violation {
    let Ok(mut p) = serde_json::from_value::<Payload>(v.payload.clone()) else { return v };
    let prop = v.property.clone();
    let class = v.class.clone();
    let Some((mut at, _)) = first_finding(&p, &prop, &class) else { return v };
    p.history.steps.truncate(at + 1);
    let mut changed = true;
    while changed {
        changed = false;
        let mut k = 0;
        while k < p.history.steps.len() {
            let mut q = p.clone();
            q.history.steps.remove(k);
            if let Some((a2, _)) = first_finding(&q, &prop, &class) {
                q.history.steps.truncate(a2 + 1);
                p = q;
                at = a2;
                changed = true;
            } else {
                k += 1;
            }
        }
        // drop faults
        if !p.history.f2.is_empty() {
            let mut q = p.clone();
            q.history.f2.clear();
            if first_finding(&q, &prop, &class).is_some() {
                p = q;
                changed = true;
            }
        }
    }
    let _ = at;
    if let Some((_, msg)) = first_finding(&p, &prop, &class) {
        v.message = msg;
        v.payload = serde_json::to_value(&p).unwrap();
    }
    v
}

pub fn replay_reproduces(v: &Violation) -> bool {
    let Ok(p) = serde_json::from_value::<Payload>(v.payload.clone()) else { return false };
    first_finding(&p, &v.property, &v.class).is_some()
}

pub fn replay(v: &Violation) -> i32 {
    let Ok(p) = serde_json::from_value::<Payload>(v.payload.clone()) else {
        eprintln!("HARNESS-ERROR bad history payload");
        return 2;
    };
    match first_finding(&p, &v.property, &v.class) {
        Some((step, msg)) => {
            println!("REPRODUCED property={} class={} at step {step}: {msg}", v.property, v.class);
            1
        }
        None => {
            println!("not reproduced");
            0
        }
    }
}
