//! Geometric view of an embedded 2-map state: faces as cyclic lists of coordinates, triangle
//! sets, signed areas, and the comparison of map adjacency with geometric adjacency. Generators
//! keep vertex coordinates pairwise distinct, so a vertex is identified by its coordinates.

use std::collections::{BTreeMap, BTreeSet};

use crate::state::*;

pub type P = (u64, u64); // coordinate bit patterns

pub fn pf(p: P) -> [f64; 2] {
    [f64::from_bits(p.0), f64::from_bits(p.1)]
}
pub fn fp(x: f64, y: f64) -> P {
    (x.to_bits(), y.to_bits())
}

#[derive(Clone, Debug)]
pub struct Face {
    pub id: u32,
    pub darts: Vec<u32>,
    pub pts: Vec<P>,
}

#[derive(Clone, Debug)]
pub struct MeshView {
    pub faces: Vec<Face>,
    /// origin coordinates of every linked in-use dart
    pub origin: BTreeMap<u32, P>,
    pub n_vertices: usize,
    pub n_edges: usize,
}

/// Faces of all linked in-use darts. Errors: open face, undefined vertex.
pub fn view(s: &State) -> Result<MeshView, String> {
    let pv = s.partition(0);
    let pf_ = s.partition(2);
    let pe = s.partition(1);
    let mut faces = vec![];
    let mut origin = BTreeMap::new();
    let (mut vs, mut es) = (BTreeSet::new(), BTreeSet::new());
    for d in 1..s.n() as u32 {
        if s.unused[d as usize] || s.is_free(d) {
            continue;
        }
        vs.insert(pv[d as usize]);
        es.insert(pe[d as usize]);
        let Some(v) = s.vtx[pv[d as usize] as usize] else { return Err(format!("vertex of dart {d} undefined")) };
        origin.insert(d, (v[0], v[1]));
    }
    for d in 1..s.n() as u32 {
        if s.unused[d as usize] || s.is_free(d) || pf_[d as usize] != d {
            continue;
        }
        let w = s.face_walk(d, true);
        if !w.closed {
            return Err(format!("face of dart {d} is open"));
        }
        let pts = w.fwd.iter().map(|x| origin[x]).collect();
        faces.push(Face { id: d, darts: w.fwd, pts });
    }
    Ok(MeshView { faces, origin, n_vertices: vs.len(), n_edges: es.len() })
}

pub fn signed_area(pts: &[P]) -> f64 {
    let mut a = 0.0;
    for i in 0..pts.len() {
        let (p, q) = (pf(pts[i]), pf(pts[(i + 1) % pts.len()]));
        a += p[0] * q[1] - q[0] * p[1];
    }
    a / 2.0
}

pub fn cross(a: P, b: P, c: P) -> f64 {
    let (a, b, c) = (pf(a), pf(b), pf(c));
    (b[0] - a[0]) * (c[1] - a[1]) - (b[1] - a[1]) * (c[0] - a[0])
}

/// Canonical rotation of an oriented triangle (smallest corner first, orientation kept).
pub fn canon(t: [P; 3]) -> [P; 3] {
    let k = (0..3).min_by_key(|&i| t[i]).unwrap();
    [t[k], t[(k + 1) % 3], t[(k + 2) % 3]]
}

pub fn canon_poly(t: &[P]) -> Vec<P> {
    let k = (0..t.len()).min_by_key(|&i| t[i]).unwrap();
    (0..t.len()).map(|i| t[(k + i) % t.len()]).collect()
}

/// Oriented triangles of the mesh; Err when some face is not a triangle.
pub fn tri_set(m: &MeshView) -> Result<BTreeSet<[P; 3]>, String> {
    let mut out = BTreeSet::new();
    for f in &m.faces {
        if f.pts.len() != 3 {
            return Err(format!("face {} has {} sides", f.id, f.pts.len()));
        }
        out.insert(canon([f.pts[0], f.pts[1], f.pts[2]]));
    }
    Ok(out)
}

pub fn poly_set(m: &MeshView) -> BTreeSet<Vec<P>> {
    m.faces.iter().map(|f| canon_poly(&f.pts)).collect()
}

/// Are all vertex coordinates pairwise distinct (one coordinate pair per vertex cell)?
pub fn coords_distinct(s: &State) -> bool {
    let pv = s.partition(0);
    let mut seen = BTreeSet::new();
    for d in 1..s.n() as u32 {
        if s.unused[d as usize] || s.is_free(d) || pv[d as usize] != d {
            continue;
        }
        match s.vtx[d as usize] {
            Some(v) => {
                if !seen.insert((v[0], v[1])) {
                    return false;
                }
            }
            None => return false,
        }
    }
    true
}

/// Map adjacency equals geometric adjacency: beta2(d) = e exactly when e runs from the end of
/// d back to its origin; returns a description of the first mismatch.
pub fn adjacency_mismatch(s: &State, m: &MeshView) -> Option<String> {
    let mut half: BTreeMap<(P, P), u32> = BTreeMap::new();
    for f in &m.faces {
        for (i, &d) in f.darts.iter().enumerate() {
            let (p, q) = (f.pts[i], f.pts[(i + 1) % f.pts.len()]);
            if half.insert((p, q), d).is_some() {
                return Some(format!("two darts run from {:?} to {:?}", pf(p), pf(q)));
            }
        }
    }
    for (&(p, q), &d) in &half {
        let want = half.get(&(q, p)).copied().unwrap_or(0);
        if s.b(2, d) != want {
            return Some(format!("dart {d} ({:?} -> {:?}): beta2 = {}, geometric opposite = {want}", pf(p), pf(q), s.b(2, d)));
        }
    }
    None
}

/// Total signed area of all faces.
pub fn total_area(m: &MeshView) -> f64 {
    m.faces.iter().map(|f| signed_area(&f.pts)).sum()
}

pub fn close(a: f64, b: f64, scale: f64) -> bool {
    (a - b).abs() <= 1e-9 * scale.abs().max(1e-12)
}
