//! The seeded scheduler: every interleaving decision, early wake-up (F3) and stall (F4) of a run
//! is drawn from one PRNG here and recorded, so a run is a pure function of its seed and a
//! recorded trace replays it exactly.

use std::sync::{Arc, Mutex};

use serde::{Deserialize, Serialize};
use shuttle::scheduler::{Schedule, Scheduler, Task, TaskId};

use crate::prng::{Rng, mix64};

#[derive(Clone, Debug, PartialEq, Serialize, Deserialize)]
pub enum SchedKind {
    /// uniform over runnable tasks at every decision
    Uniform,
    /// keep the current task with probability p (per mille), else uniform
    Bursty(u16),
    /// random priorities, `depth` demotion points inside the first `est_len` decisions
    Pct { depth: u8, est_len: u32 },
    /// like Uniform, but task `victim` is withheld for `len` decisions starting at `start`
    Stall { victim: u8, start: u32, len: u32 },
    /// round robin (serial references, liveness phase)
    Fair,
    /// task `first` runs whenever it can until it has been chosen `after` times, is then withheld
    /// while any other task can run (the others run in long bursts, i.e. whole transactions fit
    /// between two steps of `first`), and resumes afterwards: every point of a short transaction
    /// is reached as a place where somebody else's commit lands, however long the others are
    Handoff { first: u8, after: u32 },
}

#[derive(Clone, Debug, Serialize, Deserialize, PartialEq)]
pub struct SchedSpec {
    pub kind: SchedKind,
    pub seed: u64,
    /// F3: probability (per mille) of choosing a parked task when one is offered
    pub early_wake_pm: u16,
    /// after this many multi-candidate decisions faults stop and the scheduler turns fair
    pub fair_after: u32,
    /// when set, follow this recorded trace instead of drawing
    #[serde(default)]
    pub replay: Option<Vec<u8>>,
    /// probe-steered hand-off: probability (per mille) that a non-transactional read made from
    /// inside a transaction body (reported by the instrumented STM) is followed by a hand-off —
    /// the reading thread is withheld while the others run in long bursts
    #[serde(default)]
    pub steer_pm: u16,
}

#[derive(Clone, Debug, Default)]
pub struct SchedOut {
    /// task chosen at every decision that offered more than one candidate
    pub trace: Vec<u8>,
    /// all decisions, including forced ones
    pub decisions: u64,
    pub multi_decisions: u64,
    pub early_wakes: u64,
    pub stalled_decisions: u64,
    pub context_switches: u64,
    pub turned_fair: bool,
    pub replay_diverged: bool,
    pub max_tasks: usize,
    pub hash: u64,
    /// multi-candidate decisions won by each task id
    pub per_task: Vec<u32>,
    /// hand-offs triggered by the plain-read probe
    pub steered_handoffs: u64,
}

pub struct SimScheduler {
    spec: SchedSpec,
    rng: Rng,
    started: bool,
    out: Arc<Mutex<SchedOut>>,
    replay_pos: usize,
    prio: Vec<u64>,
    change_points: Vec<u32>,
    rr_last: usize,
    handoff_own: u32,
    /// (task id withheld after a probe, decisions left)
    withhold: Option<(usize, u32)>,
    last_steered: usize,
}

impl SimScheduler {
    pub fn new(spec: SchedSpec) -> (SimScheduler, Arc<Mutex<SchedOut>>) {
        let out = Arc::new(Mutex::new(SchedOut::default()));
        let mut rng = Rng::new(spec.seed);
        let mut change_points = vec![];
        if let SchedKind::Pct { depth, est_len } = spec.kind {
            for _ in 1..depth.max(1) {
                change_points.push(rng.below(est_len.max(1) as usize) as u32);
            }
        }
        (
            SimScheduler {
                spec,
                rng,
                started: false,
                out: out.clone(),
                replay_pos: 0,
                prio: vec![],
                change_points,
                rr_last: 0,
                handoff_own: 0,
                withhold: None,
                last_steered: 0,
            },
            out,
        )
    }

    fn publish(&mut self) {}

    /// Probe-steered hand-off. Returns Some(()) and sets `last_steered` (an index into `tasks`)
    /// when the decision is taken here.
    fn steered(&mut self, probe: bool, cur: Option<usize>, runnable: &[usize], tasks: &[&Task], is_yielding: bool, o: &mut SchedOut) -> Option<()> {
        if probe && self.spec.steer_pm > 0 && self.withhold.is_none() {
            if let Some(c) = cur {
                if self.rng.below(1000) < self.spec.steer_pm as usize {
                    self.withhold = Some((c, 4000));
                    o.steered_handoffs += 1;
                }
            }
        }
        let (w, left) = self.withhold?;
        let others: Vec<usize> = runnable.iter().copied().filter(|&i| usize::from(tasks[i].id()) != w).collect();
        if others.is_empty() || left == 0 {
            self.withhold = None;
            return None;
        }
        self.withhold = Some((w, left - 1));
        let keep = cur.and_then(|c| others.iter().copied().find(|&i| usize::from(tasks[i].id()) == c));
        self.last_steered = match keep {
            Some(i) if !is_yielding && self.rng.below(1000) < 970 => i,
            _ => others[self.rng.below(others.len())],
        };
        Some(())
    }

    fn prio_of(&mut self, id: usize) -> u64 {
        while self.prio.len() <= id {
            // distinct, random, all above the demoted range
            let p = (self.rng.next() | (1 << 63)) ^ (self.prio.len() as u64);
            self.prio.push(p);
        }
        self.prio[id]
    }
}

impl Scheduler for SimScheduler {
    fn new_execution(&mut self) -> Option<Schedule> {
        if self.started {
            self.publish();
            None
        } else {
            self.started = true;
            Some(Schedule::new(self.spec.seed))
        }
    }

    fn next_task(&mut self, tasks: &[&Task], current: Option<TaskId>, is_yielding: bool) -> Option<TaskId> {
        let out = self.out.clone();
        let mut o = out.lock().unwrap();
        o.decisions += 1;
        if tasks.len() == 1 {
            return Some(tasks[0].id());
        }
        let cur: Option<usize> = current.map(usize::from);
        o.max_tasks = o.max_tasks.max(tasks.len());
        o.multi_decisions += 1;
        let step = o.multi_decisions as u32;

        let probe = fast_stm::verif::take_steer();
        let chosen: usize = if let Some(tr) = &self.spec.replay {
            // ---- replay
            let want = tr.get(self.replay_pos).copied();
            self.replay_pos += 1;
            match want.and_then(|w| tasks.iter().position(|t| usize::from(t.id()) == w as usize)) {
                Some(i) => i,
                None => {
                    o.replay_diverged = true;
                    tasks.iter().position(|t| t.runnable()).unwrap_or(0)
                }
            }
        } else {
            let fair = step > self.spec.fair_after;
            if fair && !o.turned_fair {
                o.turned_fair = true;
            }
            let runnable: Vec<usize> = (0..tasks.len()).filter(|&i| tasks[i].runnable()).collect();
            let parked: Vec<usize> = (0..tasks.len()).filter(|&i| !tasks[i].runnable()).collect();
            debug_assert!(!runnable.is_empty());
            if !fair && !parked.is_empty() && self.spec.early_wake_pm > 0
                && self.rng.below(1000) < self.spec.early_wake_pm as usize
            {
                // F3: early wake-up of a parked waiter
                o.early_wakes += 1;
                parked[self.rng.below(parked.len())]
            } else if runnable.len() == 1 {
                runnable[0]
            } else if !fair && self.steered(probe, cur, &runnable, tasks, is_yielding, &mut o).is_some() {
                self.last_steered
            } else if fair {
                // round robin over task ids
                let ids: Vec<usize> = runnable.iter().map(|&i| usize::from(tasks[i].id())).collect();
                let next = ids.iter().copied().filter(|&id| id > self.rr_last).min().unwrap_or_else(|| *ids.iter().min().unwrap());
                self.rr_last = next;
                runnable[ids.iter().position(|&id| id == next).unwrap()]
            } else {
                match self.spec.kind.clone() {
                    SchedKind::Uniform => runnable[self.rng.below(runnable.len())],
                    SchedKind::Bursty(pm) => {
                        let keep = cur.and_then(|c| runnable.iter().copied().find(|&i| usize::from(tasks[i].id()) == c));
                        match keep {
                            Some(i) if !is_yielding && self.rng.below(1000) < pm as usize => i,
                            _ => runnable[self.rng.below(runnable.len())],
                        }
                    }
                    SchedKind::Pct { .. } => {
                        if self.change_points.contains(&step) {
                            if let Some(c) = cur {
                                self.prio_of(c);
                                // demote below every initial priority, later demotions lower still
                                self.prio[c] = u64::from(u32::MAX - step);
                            }
                        }
                        if is_yielding {
                            if let Some(c) = cur {
                                self.prio_of(c);
                                self.prio[c] = u64::from(u32::MAX - step);
                            }
                        }
                        let mut best = runnable[0];
                        let mut bp = 0u64;
                        for &i in &runnable {
                            let p = self.prio_of(usize::from(tasks[i].id()));
                            if p >= bp {
                                bp = p;
                                best = i;
                            }
                        }
                        best
                    }
                    SchedKind::Stall { victim, start, len } => {
                        let others: Vec<usize> = runnable.iter().copied().filter(|&i| usize::from(tasks[i].id()) != victim as usize).collect();
                        if step >= start && step < start.saturating_add(len) && !others.is_empty() && others.len() < runnable.len() {
                            o.stalled_decisions += 1;
                            others[self.rng.below(others.len())]
                        } else {
                            runnable[self.rng.below(runnable.len())]
                        }
                    }
                    SchedKind::Handoff { first, after } => {
                        let me = runnable.iter().copied().find(|&i| usize::from(tasks[i].id()) == first as usize);
                        let others: Vec<usize> = runnable.iter().copied().filter(|&i| usize::from(tasks[i].id()) != first as usize).collect();
                        match me {
                            Some(i) if self.handoff_own < after || others.is_empty() => {
                                self.handoff_own += 1;
                                i
                            }
                            _ => {
                                // `first` not there yet (the lowest id, the spawner, goes on), or withheld
                                if self.handoff_own < after {
                                    *others.iter().min_by_key(|&&i| usize::from(tasks[i].id())).unwrap()
                                } else {
                                    let keep = cur.and_then(|c| others.iter().copied().find(|&i| usize::from(tasks[i].id()) == c));
                                    match keep {
                                        Some(i) if !is_yielding && self.rng.below(1000) < 970 => i,
                                        _ => others[self.rng.below(others.len())],
                                    }
                                }
                            }
                        }
                    }
                    SchedKind::Fair => {
                        let ids: Vec<usize> = runnable.iter().map(|&i| usize::from(tasks[i].id())).collect();
                        let next = ids.iter().copied().filter(|&id| id > self.rr_last).min().unwrap_or_else(|| *ids.iter().min().unwrap());
                        self.rr_last = next;
                        runnable[ids.iter().position(|&id| id == next).unwrap()]
                    }
                }
            }
        };
        let id = usize::from(tasks[chosen].id());
        if Some(id) != cur {
            o.context_switches += 1;
        }
        if o.per_task.len() <= id {
            o.per_task.resize(id + 1, 0);
        }
        o.per_task[id] += 1;
        o.trace.push(id as u8);
        o.hash = mix64(o.hash ^ (id as u64 + 1));
        // publishing on every decision would be wasteful; panics and deadlocks unwind through
        // `Runner::run`, so also publish from there (see exec.rs) via Drop
        Some(tasks[chosen].id())
    }

    fn next_u64(&mut self) -> u64 {
        self.rng.next()
    }
}

impl Drop for SimScheduler {
    fn drop(&mut self) {
        self.publish();
    }
}
