//! Seeded generators: well-formed 2-maps (random and structured), attribute value patterns,
//! and operation programs biased towards overlapping read and write sets.

use crate::anymap::KindOrder;
use crate::attrs::*;
use crate::ops::{Op, Runner, Tx};
use crate::prng::Rng;
use crate::state::*;

/// Mesh description: faces as cyclic lists of vertex indexes, coordinates per vertex.
pub struct PolyMesh {
    pub pts: Vec<[f64; 2]>,
    pub faces: Vec<Vec<usize>>,
}

/// Build a 2-map state from a polygon mesh: one dart per face corner (numbered face by face),
/// beta1 around each face, beta2 between opposite half-edges. Returns the state and, per face,
/// its first dart.
pub fn state_from_mesh(mesh: &PolyMesh, kinds: KindMask, extra_free: usize) -> (State, Vec<u32>) {
    let nd: usize = mesh.faces.iter().map(Vec::len).sum();
    let mut s = State::new(2, nd + 1 + extra_free, kinds);
    let mut first = vec![];
    let mut half: std::collections::BTreeMap<(usize, usize), u32> = Default::default();
    let mut d = 1u32;
    for f in &mesh.faces {
        let k = f.len() as u32;
        first.push(d);
        for (j, &v) in f.iter().enumerate() {
            let me = d + j as u32;
            let nx = d + ((j as u32 + 1) % k);
            s.beta[me as usize][1] = nx;
            s.beta[nx as usize][0] = me;
            half.insert((v, f[(j + 1) % f.len()]), me);
        }
        d += k;
    }
    for (&(u, v), &a) in &half {
        if let Some(&b) = half.get(&(v, u)) {
            s.beta[a as usize][2] = b;
        }
    }
    // coordinates at vertex ids
    let part = s.partition(0);
    let mut d = 1u32;
    for f in &mesh.faces {
        for (j, &v) in f.iter().enumerate() {
            let me = d + j as u32;
            let id = part[me as usize] as usize;
            s.vtx[id] = Some(b3([mesh.pts[v][0], mesh.pts[v][1], 0.0]));
        }
        d += f.len() as u32;
    }
    (s, first)
}

/// nx x ny grid of quads (or of triangle pairs when `split`), vertices perturbed by `jitter`.
pub fn grid_mesh(rng: &mut Rng, nx: usize, ny: usize, split: bool, jitter: f64) -> PolyMesh {
    let mut pts = vec![];
    for j in 0..=ny {
        for i in 0..=nx {
            let (dx, dy) = ((rng.unit() - 0.5) * jitter, (rng.unit() - 0.5) * jitter);
            pts.push([i as f64 + dx, j as f64 + dy]);
        }
    }
    let id = |i: usize, j: usize| j * (nx + 1) + i;
    let mut faces = vec![];
    for j in 0..ny {
        for i in 0..nx {
            let (a, b, c, d) = (id(i, j), id(i + 1, j), id(i + 1, j + 1), id(i, j + 1));
            if split {
                if rng.chance(0.5) {
                    faces.push(vec![a, b, d]);
                    faces.push(vec![b, c, d]);
                } else {
                    faces.push(vec![a, b, c]);
                    faces.push(vec![a, c, d]);
                }
            } else {
                faces.push(vec![a, b, c, d]);
            }
        }
    }
    PolyMesh { pts, faces }
}

/// Random well-formed 2-map on `n` darts (ids 1..=n): beta1 made of random open chains and
/// closed cycles, beta2 a random partial matching, some darts removed (free, unreferenced).
pub fn random_state_2d(rng: &mut Rng, n: usize, kinds: KindMask) -> State {
    let mut s = State::new(2, n + 1, kinds);
    let mut darts: Vec<u32> = (1..=n as u32).collect();
    rng.shuffle(&mut darts);
    // removed darts
    let n_removed = if rng.chance(0.4) { rng.below(1 + n / 5) } else { 0 };
    let removed: Vec<u32> = darts.drain(..n_removed).collect();
    for &d in &removed {
        s.unused[d as usize] = true;
    }
    // beta1: groups
    let mut i = 0;
    while i < darts.len() {
        let len = 1 + rng.below(5.min(darts.len() - i));
        let g = &darts[i..i + len];
        let closed = if len == 1 { rng.chance(0.03) } else { rng.chance(0.55) };
        for w in 0..len - 1 {
            s.beta[g[w] as usize][1] = g[w + 1];
            s.beta[g[w + 1] as usize][0] = g[w];
        }
        if closed {
            s.beta[g[len - 1] as usize][1] = g[0];
            s.beta[g[0] as usize][0] = g[len - 1];
        }
        i += len;
    }
    // beta2: partial matching
    let mut pool = darts.clone();
    rng.shuffle(&mut pool);
    let density = rng.unit();
    while pool.len() >= 2 {
        let a = pool.pop().unwrap();
        let b = pool.pop().unwrap();
        if rng.chance(density) {
            s.beta[a as usize][2] = b;
            s.beta[b as usize][2] = a;
        }
    }
    fill_values(rng, &mut s);
    s
}

/// Draw coordinates and attribute values on the cells of `s` (any defined/undefined pattern).
pub fn fill_values(rng: &mut Rng, s: &mut State) {
    let p_def = [0.0, 0.5, 0.9, 1.0][rng.below(4)];
    let vpart = s.partition(0);
    for d in 1..s.n() as u32 {
        if s.unused[d as usize] {
            continue;
        }
        if vpart[d as usize] == d && rng.chance(p_def) {
            s.vtx[d as usize] = Some(rand_point(rng, s.dim));
        } else if rng.chance(0.02) {
            // stale value under an identifier that designates no cell
            s.vtx[d as usize] = Some(rand_point(rng, s.dim));
        }
    }
    let mut pow = 0u32;
    for k in mask_kinds(s.kinds) {
        let part = s.partition(kind_orbit(k));
        let p = [0.3, 0.7, 1.0][rng.below(3)];
        for d in 1..s.n() as u32 {
            if s.unused[d as usize] || part[d as usize] != d || !rng.chance(p) {
                continue;
            }
            s.attrs[k][d as usize] = Some(rand_attr(rng, k, &mut pow));
        }
    }
}

pub fn rand_point(rng: &mut Rng, dim: u8) -> Bits3 {
    // a coarse lattice plus a perturbation >= 1e-3: far from degeneracy bands
    let c = |rng: &mut Rng| (rng.below(41) as f64 - 20.0) * 0.5 + (1.0 + rng.below(400) as f64) * 1e-3;
    let x = c(rng);
    let y = c(rng);
    let z = if dim == 3 { c(rng) } else { 0.0 };
    b3([x, y, z])
}

pub fn rand_attr(rng: &mut Rng, k: usize, pow: &mut u32) -> u64 {
    if kind_is_weight(k) {
        *pow = (*pow + 1) % 38;
        1u64 << *pow
    } else if kind_is_tag(k) {
        rng.below(3) as u64
    } else {
        // anchors: small ids, any legal dimension for the kind
        let dim = match k {
            K_VA => rng.below(3) as u64,
            K_EA => 1 + rng.below(2) as u64,
            _ => 2,
        };
        (dim << 32) | rng.below(3) as u64
    }
}

pub fn rand_kinds_2d(rng: &mut Rng) -> KindMask {
    let mut m: KindMask = 0;
    match rng.below(6) {
        0 => {}
        1 => m |= 1 << K_WV,
        2 => m |= (1 << K_WV) | (1 << K_TV),
        3 => m |= (1 << K_WV) | (1 << K_WE),
        4 => m |= (1 << K_TV) | (1 << K_WE) | (1 << K_TE),
        _ => m |= (1 << K_WV) | (1 << K_TV) | (1 << K_WE) | (1 << K_TE),
    }
    m
}

/// A random permutation of the registered kinds per orbit.
pub fn rand_order(rng: &mut Rng, kinds: KindMask) -> KindOrder {
    let mut o = crate::anymap::canonical_order(kinds);
    for v in o.iter_mut() {
        rng.shuffle(v);
    }
    o
}

// ------------------------------------------------------------------------------- operations

pub struct OpGen<'a> {
    pub s: &'a State,
    pub hot: Vec<u32>,
    pub in_use: Vec<u32>,
    /// 3D: pairs of darts whose faces can be 3-sewn (computed on first use)
    pub mirror: std::cell::OnceCell<Vec<(u32, u32)>>,
    /// probability that a topology edit is chosen valid on the model state
    pub p_valid: f64,
}

impl<'a> OpGen<'a> {
    /// Hot neighbourhood: a drawn dart, its images and their images, plus a few others.
    pub fn new(rng: &mut Rng, s: &'a State, extra: usize) -> OpGen<'a> {
        let in_use: Vec<u32> = (1..s.n() as u32).filter(|&d| !s.unused[d as usize]).collect();
        let mut hot: Vec<u32> = vec![];
        let push = |hot: &mut Vec<u32>, d: u32| {
            if d != 0 && !s.unused[d as usize] && !hot.contains(&d) {
                hot.push(d);
            }
        };
        if !in_use.is_empty() {
            let h = *rng.pick(&in_use);
            push(&mut hot, h);
            for i in 0..=s.dim {
                let e = s.b(i, h);
                push(&mut hot, e);
                if e != 0 {
                    for j in 0..=s.dim {
                        push(&mut hot, s.b(j, e));
                    }
                }
            }
            for _ in 0..extra {
                let d = *rng.pick(&in_use);
                push(&mut hot, d);
            }
        }
        OpGen { s, hot, in_use, mirror: std::cell::OnceCell::new(), p_valid: 0.6 }
    }

    pub fn dart(&self, rng: &mut Rng) -> u32 {
        if self.hot.is_empty() {
            return 1;
        }
        if rng.chance(0.85) { *rng.pick(&self.hot) } else { *rng.pick(&self.in_use) }
    }

    fn pick_where(&self, rng: &mut Rng, f: impl Fn(u32) -> bool) -> Option<u32> {
        let c: Vec<u32> = self.hot.iter().copied().filter(|&d| f(d)).collect();
        if !c.is_empty() && rng.chance(0.8) {
            return Some(*rng.pick(&c));
        }
        let c: Vec<u32> = self.in_use.iter().copied().filter(|&d| f(d)).collect();
        if c.is_empty() { None } else { Some(*rng.pick(&c)) }
    }

    /// A topology edit; about half are chosen valid on the (initial) model state.
    pub fn topo(&self, rng: &mut Rng) -> Op {
        let s = self.s;
        let dim = s.dim;
        let i = 1 + rng.below(dim as usize) as u8;
        let valid = rng.chance(self.p_valid);
        let sew = rng.chance(0.6);
        match rng.below(2) {
            0 if i == 3 && valid && !self.mirror.get_or_init(|| crate::gen3::mirror_pairs(s)).is_empty() => {
                let (l, r) = *rng.pick(self.mirror.get().unwrap());
                if sew { Op::Sew { i, l, r } } else { Op::Link { i, l, r } }
            }
            0 => {
                // link / sew
                let (l, r) = if valid {
                    let l = if i == 1 { self.pick_where(rng, |d| s.b(1, d) == 0) } else { self.pick_where(rng, |d| s.b(i, d) == 0) };
                    let l = l.unwrap_or_else(|| self.dart(rng));
                    let r = if i == 1 { self.pick_where(rng, |d| s.b(0, d) == 0) } else { self.pick_where(rng, |d| s.b(i, d) == 0 && d != l) };
                    (l, r.unwrap_or_else(|| self.dart(rng)))
                } else {
                    (self.dart(rng), self.dart(rng))
                };
                let r = if i >= 2 && r == l { self.other_than(rng, l) } else { r };
                if sew { Op::Sew { i, l, r } } else { Op::Link { i, l, r } }
            }
            _ => {
                let l = if valid { self.pick_where(rng, |d| s.b(i, d) != 0).unwrap_or_else(|| self.dart(rng)) } else { self.dart(rng) };
                if sew { Op::Unsew { i, l } } else { Op::Unlink { i, l } }
            }
        }
    }

    pub fn other_than(&self, rng: &mut Rng, l: u32) -> u32 {
        let c: Vec<u32> = self.in_use.iter().copied().filter(|&d| d != l).collect();
        if c.is_empty() { l } else { *rng.pick(&c) }
    }

    /// A read or write of embedded data, or a query.
    pub fn data(&self, rng: &mut Rng, uniq: &mut u64) -> Op {
        let s = self.s;
        let d = self.dart(rng);
        let kinds = mask_kinds(s.kinds);
        let cell = |okind: u8, d: u32| if rng_chance_fixed(d, 7) { d } else { s.cell_id(okind_policy(okind), d) };
        let c = rng.below(15);
        match c {
            10 => Op::Audit { kinds: s.kinds, data: rng.chance(0.5) },
            11 | 12 if !kinds.is_empty() => {
                let k = *rng.pick(&kinds);
                *uniq += 1;
                let v = if kind_is_weight(k) { 1u64 << (*uniq % 38) } else if kind_is_tag(k) { *uniq % 3 } else { rand_attr(rng, k, &mut 0) };
                if rng.chance(0.7) { Op::WriteACell { k: k as u8, d, v } } else { Op::ReadACell { k: k as u8, d } }
            }
            11..=14 => {
                *uniq += 1;
                if rng.chance(0.6) { Op::WriteVCell { d, v: b3([*uniq as f64 * 0.5 - 40.0, *uniq as f64 * 0.125 + 3.0, if s.dim == 3 { 1.5 } else { 0.0 }]) } } else { Op::ReadVCell { d } }
            }
            0 => Op::ReadV { id: cell(0, d) },
            1 => {
                *uniq += 1;
                Op::WriteV { id: cell(0, d), v: b3([*uniq as f64 * 0.25 + 100.0, -(*uniq as f64) * 0.5, 0.0]) }
            }
            2 => Op::RemoveV { id: cell(0, d) },
            3 | 4 if !kinds.is_empty() => {
                let k = *rng.pick(&kinds);
                let id = cell(kind_orbit(k), d);
                match rng.below(3) {
                    0 => Op::ReadA { k: k as u8, id },
                    1 => {
                        *uniq += 1;
                        let v = if kind_is_weight(k) { 1u64 << (*uniq % 38) } else if kind_is_tag(k) { *uniq % 3 } else { rand_attr(rng, k, &mut 0) };
                        Op::WriteA { k: k as u8, id, v }
                    }
                    _ => Op::RemoveA { k: k as u8, id },
                }
            }
            5 | 6 => Op::CellId { okind: rng.below(s.dim as usize + 1) as u8, d },
            7 => {
                let ps: &[Policy] = if s.dim == 2 {
                    &[Policy::Vertex, Policy::Edge, Policy::Face, Policy::VertexLinear, Policy::FaceLinear]
                } else {
                    &[Policy::Vertex, Policy::Edge, Policy::Face, Policy::Volume, Policy::VertexLinear, Policy::FaceLinear, Policy::VolumeLinear]
                };
                Op::Orbit { p: *rng.pick(ps), d }
            }
            8 => Op::Beta { i: rng.below(s.dim as usize + 1) as u8, d },
            _ => {
                if s.dim == 2 { Op::IsUnused { d } } else { Op::Beta { i: 1, d } }
            }
        }
    }
}

fn rng_chance_fixed(d: u32, m: u32) -> bool {
    // deterministic pseudo-choice: roughly one in m slots is addressed directly rather than
    // through its cell id (arbitrary-slot accesses)
    crate::prng::mix64(u64::from(d)) % u64::from(m) == 0
}

pub fn okind_policy(okind: u8) -> Policy {
    match okind {
        0 => Policy::Vertex,
        1 => Policy::Edge,
        2 => Policy::Face,
        _ => Policy::Volume,
    }
}

pub fn rand_runner(rng: &mut Rng, n_ops: usize, all_have_force: bool) -> Runner {
    match rng.below(10) {
        0..=4 => Runner::WithErr,
        5..=6 => Runner::ControlRetry,
        7 => Runner::ControlAbortAfter(1 + rng.below(3) as u8),
        _ => {
            if n_ops == 1 && all_have_force { Runner::Force } else { Runner::WithErr }
        }
    }
}

/// A transaction of 1..=max_ops operations mixing edits and data accesses.
pub fn rand_tx(rng: &mut Rng, g: &OpGen, max_ops: usize, uniq: &mut u64, p_topo: f64) -> Tx {
    let n = 1 + rng.below(max_ops);
    let ops: Vec<Op> = (0..n).map(|_| if rng.chance(p_topo) { g.topo(rng) } else { g.data(rng, uniq) }).collect();
    let all_force = ops.iter().all(crate::ops::has_force_form);
    Tx { runner: rand_runner(rng, n, all_force), ops, f1: vec![], f2: vec![], f1_attempt: 0 }
}

// ------------------------------------------------------------------------------- kernels

/// Consistent anchors on a mesh: boundary vertices on a curve (a few of them nodes), interior
/// vertices on the surface, boundary edges on the curve, interior edges and faces on the surface.
pub fn fill_anchors(rng: &mut Rng, s: &mut State) {
    let (pv, pe, pf) = (s.partition(0), s.partition(1), s.partition(2));
    let n = s.n() as u32;
    let live = |s: &State, d: u32| !s.unused[d as usize] && !s.is_free(d);
    // one material, or two separated by a vertical line through the mesh (faces by centroid):
    // the interface between them is an interior curve
    let two = rng.chance(0.5);
    let mut surface = vec![1u64; s.n()]; // per face id
    if two {
        let mut cx: Vec<(u32, f64)> = vec![];
        for d in 1..n {
            if live(s, d) && pf[d as usize] == d {
                let w = s.face_walk(d, true).fwd;
                let xs: Vec<f64> = w.iter().filter_map(|&x| s.vtx[pv[x as usize] as usize].map(|v| f64::from_bits(v[0]))).collect();
                if !xs.is_empty() {
                    cx.push((d, xs.iter().sum::<f64>() / xs.len() as f64));
                }
            }
        }
        if cx.len() >= 2 {
            let mut sorted: Vec<f64> = cx.iter().map(|c| c.1).collect();
            sorted.sort_by(|a, b| a.partial_cmp(b).unwrap());
            let cut = sorted[sorted.len() / 2];
            for (f, x) in cx {
                surface[f as usize] = if x < cut { 1 } else { 2 };
            }
        }
    }
    let surf_of = |d: u32| surface[pf[d as usize] as usize];
    let mut boundary_vertex = vec![false; s.n()];
    let mut interface_vertex = vec![false; s.n()];
    for d in 1..n {
        if !live(s, d) {
            continue;
        }
        let nx = s.b(1, d);
        let o = s.b(2, d);
        if o == 0 {
            boundary_vertex[pv[d as usize] as usize] = true;
            if nx != 0 {
                boundary_vertex[pv[nx as usize] as usize] = true;
            }
        } else if surf_of(d) != surf_of(o) {
            interface_vertex[pv[d as usize] as usize] = true;
            if nx != 0 {
                interface_vertex[pv[nx as usize] as usize] = true;
            }
        }
    }
    let p_node = [0.0, 0.15, 0.4][rng.below(3)];
    for d in 1..n {
        if !live(s, d) {
            continue;
        }
        if mask_has(s.kinds, K_VA) && pv[d as usize] == d {
            let (bd, itf) = (boundary_vertex[d as usize], interface_vertex[d as usize]);
            s.attrs[K_VA][d as usize] = Some(if bd && itf {
                u64::from(d) // where the interface meets the boundary: a node
            } else if bd {
                if rng.chance(p_node) { u64::from(d) } else { (1 << 32) | 1 }
            } else if itf {
                (1 << 32) | 7
            } else {
                (2 << 32) | surf_of(d)
            });
        }
        if mask_has(s.kinds, K_EA) && pe[d as usize] == d {
            let o = s.b(2, d);
            s.attrs[K_EA][d as usize] = Some(if o == 0 {
                (1 << 32) | 1
            } else if surf_of(d) != surf_of(o) {
                (1 << 32) | 7
            } else {
                (2 << 32) | surf_of(d)
            });
        }
        if mask_has(s.kinds, K_FA) && pf[d as usize] == d {
            s.attrs[K_FA][d as usize] = Some((2 << 32) | surface[d as usize]);
        }
    }
}

pub fn rand_kinds_kernels(rng: &mut Rng) -> KindMask {
    let anchors: KindMask = (1 << K_VA) | (1 << K_EA) | (1 << K_FA);
    match rng.below(7) {
        0 => 0,
        1 => anchors,
        6 => (1 << K_EA) | (1 << K_FA),
        2 => (1 << K_WV) | (1 << K_WE),
        3 => anchors | (1 << K_WV),
        4 => (1 << K_TV) | (1 << K_WV) | (1 << K_TE),
        _ => anchors | (1 << K_WV) | (1 << K_WE),
    }
}

/// The same map under a random renumbering of its darts (the null dart stays 0). Cell identifiers
/// are smallest darts, so every value stored under an identifier moves to the smallest dart of
/// the renumbered cell; which darts are "smaller" (spare darts vs mesh darts, one side of an edge
/// vs the other, first half of a spare list vs second half) is what many kernel mistakes depend
/// on. Returns the state unchanged when some value does not sit under a cell identifier.
pub fn relabel_random(rng: &mut Rng, s: &State) -> State {
    let n = s.n();
    if n < 3 {
        return s.clone();
    }
    let mut perm: Vec<u32> = (0..n as u32).collect();
    rng.shuffle(&mut perm[1..]);
    let mut t = State::new(s.dim, n, s.kinds);
    for d in 0..n {
        for i in 0..=s.dim as usize {
            t.beta[perm[d] as usize][i] = perm[s.beta[d][i] as usize];
        }
        t.unused[perm[d] as usize] = s.unused[d];
    }
    let old_parts: Vec<Vec<u32>> = (0..=s.dim).map(|o| s.partition(o)).collect();
    let new_parts: Vec<Vec<u32>> = (0..=t.dim).map(|o| t.partition(o)).collect();
    for d in 1..n {
        if let Some(v) = s.vtx[d] {
            if old_parts[0][d] != d as u32 {
                return s.clone();
            }
            t.vtx[new_parts[0][perm[d] as usize] as usize] = Some(v);
        }
    }
    for k in mask_kinds(s.kinds) {
        let o = kind_orbit(k) as usize;
        for d in 1..n {
            if let Some(v) = s.attrs[k][d] {
                if old_parts[o][d] != d as u32 {
                    return s.clone();
                }
                t.attrs[k][new_parts[o][perm[d] as usize] as usize] = Some(v);
            }
        }
    }
    t
}

/// A mesh state suited to the kernels: (split) grid with perturbed vertices, spare free darts,
/// user attribute values on every cell, consistent anchors when registered.
pub fn kernel_state(rng: &mut Rng, kinds: KindMask, triangles: bool, max_n: usize) -> State {
    let (nx, ny) = (1 + rng.below(max_n), 1 + rng.below(max_n));
    let mesh = grid_mesh(rng, nx, ny, triangles, 0.3);
    let extra = 6 + rng.below(8);
    let (mut s, _) = state_from_mesh(&mesh, kinds, extra);
    let mut pow = 0u32;
    for k in mask_kinds(kinds) {
        if kind_is_anchor(k) {
            continue;
        }
        let part = s.partition(kind_orbit(k));
        let p = [0.6, 1.0, 1.0][rng.below(3)];
        for d in 1..s.n() as u32 {
            if !s.is_free(d) && part[d as usize] == d && rng.chance(p) {
                s.attrs[k][d as usize] = Some(rand_attr(rng, k, &mut pow));
            }
        }
    }
    fill_anchors(rng, &mut s);
    if rng.chance(0.5) {
        s = relabel_random(rng, &s);
    }
    if rng.chance(0.1) {
        // an undefined vertex somewhere
        let d = 1 + rng.below(s.n() - 1);
        s.vtx[d] = None;
    }
    s
}

/// A kernel call with plausible arguments on `s` (free darts as spares, real edges and faces).
pub fn kernel_op(rng: &mut Rng, s: &State, which: Option<usize>) -> Option<Op> {
    let mut pool = free_pool(s);
    kernel_op_with_pool(rng, s, which, &mut pool, false)
}

pub fn free_pool(s: &State) -> Vec<u32> {
    (1..s.n() as u32).filter(|&d| !s.unused[d as usize] && s.is_free(d)).collect()
}

/// Like `kernel_op`; spare darts are taken from `pool` and, when `consume` is set, removed from
/// it so that successive calls get disjoint spares (the pattern of benches/src/cut_edges.rs).
pub fn kernel_op_with_pool(rng: &mut Rng, s: &State, which: Option<usize>, pool: &mut Vec<u32>, consume: bool) -> Option<Op> {
    let n = s.n() as u32;
    let linked: Vec<u32> = (1..n).filter(|&d| !s.unused[d as usize] && !s.is_free(d)).collect();
    if linked.is_empty() {
        return None;
    }
    let mut take = |rng: &mut Rng, k: usize| -> Vec<u32> {
        rng.shuffle(pool);
        let mut v: Vec<u32> = pool.iter().copied().take(k).collect();
        if consume {
            pool.retain(|d| !v.contains(d));
        }
        // wrong counts / unusable spares now and then
        while v.len() < k {
            v.push(if rng.chance(0.5) { 0 } else { *rng.pick(&linked) });
        }
        // a spare that is not free, at a random position: preferably one that is non-free through
        // a single image only (head or tail of an open path, a 2-sewn dart without neighbours)
        if !v.is_empty() && rng.chance(0.1) {
            let partial: Vec<u32> = linked.iter().copied().filter(|&d| (0..3u8).filter(|&i| s.b(i, d) != 0).count() == 1).collect();
            let bad = if !partial.is_empty() && rng.chance(0.7) { *rng.pick(&partial) } else if rng.chance(0.2) { 0 } else { *rng.pick(&linked) };
            let j = rng.below(v.len());
            if !v.contains(&bad) {
                v[j] = bad;
            }
        }
        v
    };
    let pe = s.partition(1);
    let pf = s.partition(2);
    let e_any = *rng.pick(&linked);
    let inner: Vec<u32> = linked.iter().copied().filter(|&d| s.b(2, d) != 0).collect();
    let outer: Vec<u32> = linked.iter().copied().filter(|&d| s.b(2, d) == 0).collect();
    let edge_id = |d: u32| if rng_coin(d) { pe[d as usize] } else { d };
    let w = which.unwrap_or_else(|| rng.below(11));
    Some(match w {
        0 => Op::Swap { e: edge_id(if inner.is_empty() { e_any } else { *rng.pick(&inner) }) },
        1 => {
            let e = if !inner.is_empty() && rng.chance(0.9) { *rng.pick(&inner) } else { e_any };
            let v = take(rng, 6);
            Op::CutInner { e: pe[e as usize], nd: [v[0], v[1], v[2], v[3], v[4], v[5]] }
        }
        2 => {
            let e = if !outer.is_empty() && rng.chance(0.9) { *rng.pick(&outer) } else { e_any };
            let v = take(rng, 3);
            Op::CutOuter { e, nd: [v[0], v[1], v[2]] }
        }
        3 => Op::Collapse { e: pe[e_any as usize] },
        4 => {
            let v = take(rng, 2);
            let t = match rng.below(5) {
                0 => None,
                1 => Some(if rng.chance(0.5) { 0.0f64 } else { 1.5 }.to_bits()),
                _ => Some((0.1 + 0.8 * rng.unit()).to_bits()),
            };
            Op::InsertVertex { e: pe[e_any as usize], nd: (v[0], v[1]), t }
        }
        5 => {
            let k = 1 + rng.below(3);
            let cnt = if rng.chance(0.9) { 2 * k } else { 2 * k + 1 };
            let nd = take(rng, cnt);
            let mut ts: Vec<f64> = (0..k).map(|_| 0.05 + 0.9 * rng.unit()).collect();
            ts.sort_by(|a, b| a.partial_cmp(b).unwrap());
            // a position outside ]0,1[ (or on its border), at any index of the list
            if rng.chance(0.08) {
                let j = rng.below(ts.len());
                ts[j] = [-0.5, 0.0, 1.0, 1.5, -0.001, 1.001][rng.below(6)];
            }
            Op::InsertVertices { e: pe[e_any as usize], nd, ts: ts.iter().map(|t| t.to_bits()).collect() }
        }
        6..=9 => {
            let f = pf[e_any as usize];
            let len = s.face_walk(f, true).fwd.len();
            let need = if len >= 3 { 2 * (len - 3) } else { 0 };
            let k = if rng.chance(0.9) { need } else { need + 1 };
            let nd = take(rng, k);
            match w {
                6 => Op::Fan { f, nd },
                7 => Op::FanConvex { f, nd },
                8 => Op::EarclipCcw { f, nd },
                _ => Op::EarclipCw { f, nd },
            }
        }
        _ => {
            let pv = s.partition(0);
            let vid = pv[e_any as usize];
            let mut others: Vec<u32> = s.orbit(Policy::Vertex, vid).iter().map(|&d| pv[s.b(1, d) as usize]).filter(|&x| x != 0).collect();
            others.sort_unstable();
            others.dedup();
            Op::MoveToAverage { vid, others }
        }
    })
}

fn rng_coin(d: u32) -> bool {
    crate::prng::mix64(u64::from(d) ^ 0x77) % 8 != 0
}

// ------------------------------------------------------------------------------- polygons (C13)

/// A simple polygon with `n` sides, counter-clockwise. kind 0: strictly convex; 1: star-shaped
/// around the origin with reflex vertices; 2: like 1 with stronger radius variation.
pub fn polygon(rng: &mut Rng, n: usize, kind: usize) -> Vec<[f64; 2]> {
    if kind >= 3 {
        return general_polygon(rng, n);
    }
    loop {
        // sorted angles with a minimum gap
        let mut gaps: Vec<f64> = (0..n).map(|_| 0.35 + rng.unit()).collect();
        let tot: f64 = gaps.iter().sum();
        for g in gaps.iter_mut() {
            *g *= std::f64::consts::TAU / tot;
        }
        let mut ang = rng.unit() * std::f64::consts::TAU;
        let mut pts = vec![];
        let (ax, ay) = (1.0 + rng.unit(), 1.0 + rng.unit());
        for i in 0..n {
            ang += gaps[i];
            let r = match kind {
                0 => 1.0,
                1 => if rng.chance(0.4) { 0.45 + 0.2 * rng.unit() } else { 1.0 + 0.1 * rng.unit() },
                _ => 0.3 + 0.9 * rng.unit(),
            };
            pts.push([r * ax * ang.cos() + 3.0, r * ay * ang.sin() - 2.0]);
        }
        let bits: Vec<crate::mesh::P> = pts.iter().map(|p| crate::mesh::fp(p[0], p[1])).collect();
        let ok = crate::koracle::polygon_is_simple(&bits)
            && crate::koracle::general_position(&bits)
            && crate::mesh::signed_area(&bits) > 1e-3
            && (kind != 0 || crate::koracle::strictly_convex(&bits));
        if ok {
            return pts;
        }
    }
}

/// kind 3: a general simple polygon (not star-shaped in general: spirals, combs, pockets) — random
/// points in a box in random cyclic order, crossings removed by 2-opt reversals (each reversal
/// shortens the perimeter, so this terminates), counter-clockwise.
fn general_polygon(rng: &mut Rng, n: usize) -> Vec<[f64; 2]> {
    use crate::mesh::{cross, fp};
    loop {
        let mut pts: Vec<[f64; 2]> = (0..n).map(|_| [3.0 + 4.0 * (rng.unit() - 0.5), -2.0 + 4.0 * (rng.unit() - 0.5)]).collect();
        let mut rounds = 0;
        'untangle: loop {
            rounds += 1;
            if rounds > 500 {
                break;
            }
            for i in 0..n {
                for j in i + 2..n {
                    if i == 0 && j == n - 1 {
                        continue;
                    }
                    let (a, b, c, d) = (pts[i], pts[i + 1], pts[j], pts[(j + 1) % n]);
                    let (pa, pb, pc, pd) = (fp(a[0], a[1]), fp(b[0], b[1]), fp(c[0], c[1]), fp(d[0], d[1]));
                    let (d1, d2, d3, d4) = (cross(pc, pd, pa), cross(pc, pd, pb), cross(pa, pb, pc), cross(pa, pb, pd));
                    if (d1 > 0.0) != (d2 > 0.0) && (d3 > 0.0) != (d4 > 0.0) {
                        pts[i + 1..=j].reverse();
                        continue 'untangle;
                    }
                }
            }
            break;
        }
        let mut bits: Vec<crate::mesh::P> = pts.iter().map(|p| fp(p[0], p[1])).collect();
        if crate::mesh::signed_area(&bits) < 0.0 {
            pts.reverse();
            bits.reverse();
        }
        // vertices well apart, so that the in-ear tests of the kernels are far from rounding
        let apart = (0..n).all(|i| (i + 1..n).all(|j| (pts[i][0] - pts[j][0]).hypot(pts[i][1] - pts[j][1]) > 0.15));
        if apart && crate::koracle::polygon_is_simple(&bits) && crate::koracle::general_position(&bits) && crate::mesh::signed_area(&bits) > 1e-2 {
            return pts;
        }
    }
}

/// A mesh made of one polygon (face 0) and triangles glued on a random subset of its sides;
/// mirrored (clockwise faces) when `cw`.
pub fn polygon_mesh(rng: &mut Rng, n: usize, kind: usize, cw: bool) -> PolyMesh {
    let poly = polygon(rng, n, kind);
    let mut pts = poly.clone();
    let mut faces = vec![(0..n).collect::<Vec<usize>>()];
    let p_side = [0.0, 0.4, 1.0][rng.below(3)];
    for i in 0..n {
        if !rng.chance(p_side) {
            continue;
        }
        let (a, b) = (poly[i], poly[(i + 1) % n]);
        // apex on the right of a->b (outside a counter-clockwise polygon), close to the side
        // (overlaps between neighbour triangles are irrelevant to the map)
        let (mx, my) = ((a[0] + b[0]) / 2.0, (a[1] + b[1]) / 2.0);
        let (dx, dy) = (b[0] - a[0], b[1] - a[1]);
        let h = 0.2 + 0.2 * rng.unit();
        pts.push([mx + dy * h, my - dx * h]);
        faces.push(vec![(i + 1) % n, i, pts.len() - 1]);
    }
    if cw {
        // mirroring reverses the geometric orientation of every face; the dart order stays
        for p in pts.iter_mut() {
            p[0] = -p[0];
        }
    }
    // the length unit: nothing in the statement depends on it
    let f = [1.0, 1.0, 1.0, 1.0, 1.0, 1.0, 1e-3, 1e3, 3e-9, 1e7][rng.below(10)];
    if f != 1.0 {
        for p in pts.iter_mut() {
            p[0] *= f;
            p[1] *= f;
        }
    }
    PolyMesh { pts, faces }
}
