//! Concurrent scenarios: N simulated threads running transaction programs on one shared real
//! map, serial reference executions of the same programs, and the serialisability oracle.

use std::sync::Arc;

use serde::{Deserialize, Serialize};

use crate::anymap::{AnyMap, KindOrder, build_map};
use crate::exec::{ExecResult, Outcome, execute, execute_serial};
use crate::faults;
use crate::ops::{Tx, TxOut, TxValue, run_tx};
use crate::sched::SchedSpec;
use crate::state::State;

#[derive(Clone, Debug, PartialEq, Serialize, Deserialize)]
pub struct Scenario {
    pub init: State,
    pub order: KindOrder,
    /// per simulated thread: its transactions in program order
    pub threads: Vec<Vec<Tx>>,
    /// F2 plan per thread: indexes of eligible commit attempts that report a validation failure
    #[serde(default)]
    pub f2: Vec<Vec<u32>>,
    /// exclusive (`&mut`) prologue run before the threads start, e.g. `add_free_darts(6 n)`
    #[serde(default)]
    pub pre: Vec<crate::hist::Step>,
}

#[derive(Clone, Debug)]
pub struct ConcOut {
    pub outs: Vec<Vec<TxOut>>,
    pub fin: State,
    /// did the serial replay in commit-stamp order reproduce results and final state?
    pub fast_match: bool,
    pub fast_detail: String,
    pub build_tries: u32,
}

impl Scenario {
    pub fn n_tx(&self) -> usize {
        self.threads.iter().map(Vec::len).sum()
    }
}

/// What every thread had finished when an execution was torn down (panic, deadlock, bound).
pub type Progress = Arc<std::sync::Mutex<Vec<(usize, usize, TxOut)>>>;

fn run_thread(map: &AnyMap, id: u32, txs: &[Tx], f2: Vec<u32>, progress: &Progress) -> Vec<TxOut> {
    fast_stm::verif::set_sim_thread(id, f2);
    faults::reset_thread();
    txs.iter()
        .enumerate()
        .map(|(i, tx)| {
            let o = run_tx(map, tx);
            progress.lock().unwrap().push((id as usize - 1, i, o.clone()));
            o
        })
        .collect()
}

/// Serial execution of the listed transactions, in the given order, on a fresh map.
/// Returns per-transaction outputs (same indexing as `order`) and the final snapshot.
fn apply_pre(map: &mut AnyMap, pre: &[crate::hist::Step]) {
    use crate::hist::Step;
    for st in pre {
        match st {
            Step::Tx(tx) => {
                let _ = run_tx(map, tx);
            }
            Step::AddFreeDart => {
                map.add_free_dart();
            }
            Step::AddFreeDarts(n) => {
                map.add_free_darts(*n as usize);
            }
            Step::InsertFreeDart => {
                map.insert_free_dart();
            }
            Step::RemoveFreeDart(d) => {
                let n = map.n_darts() as u32;
                if *d != 0 && *d < n && !map.is_unused(*d) && (0..=map.dim()).all(|i| map.beta(i, *d) == 0) {
                    map.remove_free_dart(*d);
                }
            }
            Step::RemoveAnyDart(d) => {
                if *d != 0 && *d < map.n_darts() as u32 {
                    let _ = crate::hist::remove_catching(map, *d);
                }
            }
        }
    }
}

fn serial_on_fresh_map(scn: &Scenario, order: &[(usize, usize)]) -> (Vec<TxOut>, State) {
    let (mut map, _) = build_map(&scn.init, &scn.order);
    fast_stm::verif::set_sim_thread(0, vec![]);
    faults::reset_thread();
    apply_pre(&mut map, &scn.pre);
    let outs = order.iter().map(|&(th, i)| run_tx(&map, &scn.threads[th][i])).collect();
    let fin = map.snapshot(scn.init.kinds);
    (outs, fin)
}

fn compare_serial(order: &[(usize, usize)], conc: &[Vec<TxOut>], conc_fin: &State, ser: &[TxOut], ser_fin: &State) -> Result<(), String> {
    for (k, &(th, i)) in order.iter().enumerate() {
        if conc[th][i].value != ser[k].value {
            return Err(format!(
                "thread {th} tx {i}: concurrent run returned {:?}, serial run returned {:?}",
                conc[th][i].value, ser[k].value
            ));
        }
    }
    if conc_fin != ser_fin {
        return Err(format!("final states differ (concurrent vs serial): {}", conc_fin.diff(ser_fin)));
    }
    Ok(())
}

/// The concurrent run plus, inside the same execution, the serial replay in commit order.
pub fn run_concurrent(scn: Arc<Scenario>, spec: SchedSpec, max_steps: usize) -> ExecResult<ConcOut> {
    run_concurrent_with_progress(scn, spec, max_steps).0
}

pub fn run_concurrent_with_progress(scn: Arc<Scenario>, spec: SchedSpec, max_steps: usize) -> (ExecResult<ConcOut>, Vec<(usize, usize, TxOut)>) {
    let progress: Progress = Arc::new(std::sync::Mutex::new(vec![]));
    let p2 = progress.clone();
    let r = execute(spec, max_steps, move || {
        let progress = &p2;
        let (mut map, info) = build_map(&scn.init, &scn.order);
        fast_stm::verif::set_sim_thread(0, vec![]);
        faults::reset_thread();
        apply_pre(&mut map, &scn.pre);
        let mapr = &map;
        let scnr = &*scn;
        let outs: Vec<Vec<TxOut>> = shuttle::thread::scope(|s| {
            let hs: Vec<_> = scnr
                .threads
                .iter()
                .enumerate()
                .map(|(ti, txs)| {
                    let f2 = scnr.f2.get(ti).cloned().unwrap_or_default();
                    s.spawn(move || run_thread(mapr, ti as u32 + 1, txs, f2, progress))
                })
                .collect();
            hs.into_iter().map(|h| h.join().unwrap()).collect()
        });
        crate::exec::snapshot_stats();
        let fin = map.snapshot(scn.init.kinds);
        // serial replay in commit-stamp order
        let mut committed: Vec<(u64, usize, usize)> = vec![];
        for (th, os) in outs.iter().enumerate() {
            for (i, o) in os.iter().enumerate() {
                if o.committed() {
                    committed.push((o.stamp, th, i));
                }
            }
        }
        committed.sort_unstable();
        let order: Vec<(usize, usize)> = committed.iter().map(|&(_, th, i)| (th, i)).collect();
        let (ser, ser_fin) = serial_on_fresh_map(&scn, &order);
        let cmp = compare_serial(&order, &outs, &fin, &ser, &ser_fin);
        if std::env::var("VERIF_TRACE").is_ok() {
            eprintln!("TRACE concurrent outs: {outs:?}");
            eprintln!("TRACE commit order: {order:?}");
            eprintln!("TRACE concurrent final vtx: {:?}", fin.vtx.iter().map(|v| v.map(crate::state::f3)).collect::<Vec<_>>());
            eprintln!("TRACE concurrent final beta: {:?}", fin.beta);
            eprintln!("TRACE serial outs: {ser:?}");
            eprintln!("TRACE serial final vtx: {:?}", ser_fin.vtx.iter().map(|v| v.map(crate::state::f3)).collect::<Vec<_>>());
            eprintln!("TRACE serial final beta: {:?}", ser_fin.beta);
        }
        ConcOut { outs, fin, fast_match: cmp.is_ok(), fast_detail: cmp.err().unwrap_or_default(), build_tries: info.tries }
    });
    let p = progress.lock().unwrap().clone();
    (r, p)
}

/// Triage of a deadlock (or of non-termination under the fair, fault-free phase): the
/// transactions that had finished are replayed serially in commit order on a fresh map (the
/// cancelled ones published nothing), then each blocked transaction — the next one of every
/// unfinished thread — is run alone in that state. If one of them completes there, nothing
/// sequential explains why it stayed blocked: its wake-up was lost (or a lock cycle formed).
/// Returns Some(description) for such an unexplained block, None when every blocked transaction
/// blocks in the final state too.
pub fn unexplained_block(scn: &Arc<Scenario>, progress: &[(usize, usize, TxOut)]) -> Option<String> {
    let mut committed: Vec<(u64, usize, usize)> = progress.iter().filter(|(_, _, o)| o.committed()).map(|(t, i, o)| (o.stamp, *t, *i)).collect();
    committed.sort_unstable();
    let base: Vec<(usize, usize)> = committed.iter().map(|&(_, t, i)| (t, i)).collect();
    for (t, txs) in scn.threads.iter().enumerate() {
        let done = progress.iter().filter(|(pt, _, _)| *pt == t).count();
        if done >= txs.len() {
            continue;
        }
        let mut order = base.clone();
        order.push((t, done));
        match run_serial(scn.clone(), order) {
            SerialOutcome::Done(outs, _) => {
                return Some(format!(
                    "thread {t} stayed blocked in its transaction {done} although, after the {} committed transactions in commit order, that transaction completes when run alone (result {:?})",
                    base.len(),
                    outs.last().map(|o| &o.value)
                ));
            }
            SerialOutcome::Panic(_) | SerialOutcome::Blocks => {}
        }
    }
    None
}

#[derive(Debug)]
pub enum SerialOutcome {
    Done(Vec<TxOut>, State),
    Panic(String),
    Blocks,
}

/// One serial reference execution in its own single-task execution.
pub fn run_serial(scn: Arc<Scenario>, order: Vec<(usize, usize)>) -> SerialOutcome {
    let r = execute_serial(move || serial_on_fresh_map(&scn, &order));
    match r.outcome {
        Outcome::Done((o, f)) => SerialOutcome::Done(o, f),
        Outcome::Panic(m) => SerialOutcome::Panic(m),
        Outcome::Deadlock(_) => SerialOutcome::Blocks,
        Outcome::StepBound | Outcome::Livelock => SerialOutcome::Blocks,
    }
}

/// All interleavings of the given per-thread index lists that respect program order.
/// `per_thread[t]` lists the transaction indexes of thread t to include (increasing).
pub fn interleavings(per_thread: &[Vec<usize>], limit: usize) -> Vec<Vec<(usize, usize)>> {
    fn rec(per_thread: &[Vec<usize>], pos: &mut Vec<usize>, cur: &mut Vec<(usize, usize)>, out: &mut Vec<Vec<(usize, usize)>>, limit: usize) {
        if out.len() >= limit {
            return;
        }
        let mut any = false;
        for t in 0..per_thread.len() {
            if pos[t] < per_thread[t].len() {
                any = true;
                cur.push((t, per_thread[t][pos[t]]));
                pos[t] += 1;
                rec(per_thread, pos, cur, out, limit);
                pos[t] -= 1;
                cur.pop();
            }
        }
        if !any {
            out.push(cur.clone());
        }
    }
    let mut out = vec![];
    rec(per_thread, &mut vec![0; per_thread.len()], &mut vec![], &mut out, limit);
    out
}

pub fn count_interleavings(per_thread: &[Vec<usize>]) -> f64 {
    // multinomial coefficient
    let mut total = 0usize;
    let mut r = 1.0f64;
    for t in per_thread {
        for k in 1..=t.len() {
            total += 1;
            r = r * total as f64 / k as f64;
        }
    }
    r
}

/// Exhaustive search for a serial order of the committed transactions explaining `conc`.
/// Returns Ok(index of the matching order) or Err(reason from the last comparison).
pub fn search_serial_order(scn: &Arc<Scenario>, conc: &ConcOut, limit: usize) -> Result<usize, String> {
    let per_thread: Vec<Vec<usize>> = conc
        .outs
        .iter()
        .map(|os| os.iter().enumerate().filter(|(_, o)| o.committed()).map(|(i, _)| i).collect())
        .collect();
    let orders = interleavings(&per_thread, limit);
    let mut last = String::from("no order tried");
    for (k, order) in orders.iter().enumerate() {
        match run_serial(scn.clone(), order.clone()) {
            SerialOutcome::Done(ser, ser_fin) => match compare_serial(order, &conc.outs, &conc.fin, &ser, &ser_fin) {
                Ok(()) => return Ok(k),
                Err(e) => last = e,
            },
            SerialOutcome::Panic(m) => last = format!("serial order panics: {m}"),
            SerialOutcome::Blocks => last = "serial order blocks".into(),
        }
    }
    Err(format!("none of {} serial orders matches; last mismatch: {last}", orders.len()))
}

/// Do the serial orders of *all* transactions of the scenario panic / block? (admission and
/// triage of panics and deadlocks). Examines at most `limit` orders; returns (n_orders,
/// n_panicking, n_blocking, first panic message).
pub fn serial_survey(scn: &Arc<Scenario>, limit: usize) -> (usize, usize, usize, Option<String>) {
    let per_thread: Vec<Vec<usize>> = scn.threads.iter().map(|t| (0..t.len()).collect()).collect();
    let orders = interleavings(&per_thread, limit);
    let (mut p, mut b, mut msg) = (0, 0, None);
    for order in &orders {
        match run_serial(scn.clone(), order.clone()) {
            SerialOutcome::Done(..) => {}
            SerialOutcome::Panic(m) => {
                p += 1;
                msg.get_or_insert(m);
            }
            SerialOutcome::Blocks => b += 1,
        }
    }
    (orders.len(), p, b, msg)
}

/// Is the scenario inside the domain in which every transaction must terminate whatever the
/// others do: every vertex of a linked in-use dart has coordinates, and no operation removes
/// coordinates or attribute values? (The kernels deliberately wait — `retry()` — for a value that
/// is missing; on such a map nothing is missing, and nothing goes missing.)
pub fn nothing_to_wait_for(scn: &Scenario) -> bool {
    use crate::ops::Op;
    let s = &scn.init;
    let pv = s.partition(0);
    let embedded = (1..s.n() as u32).all(|d| s.unused[d as usize] || s.is_free(d) || s.vtx[pv[d as usize] as usize].is_some());
    // (links and unlinks change cells without moving their data: they leave vertices without
    // coordinates behind, like the removals)
    let removes = scn.threads.iter().flatten().flat_map(|t| t.ops.iter()).any(|o| matches!(o, Op::RemoveV { .. } | Op::RemoveA { .. } | Op::RemoveDartTx { .. } | Op::Link { .. } | Op::Unlink { .. }));
    // spare darts handed to kernels: free in-use darts, none null, none handed out twice (the
    // cuts and triangulations take "free darts" on trust)
    let mut seen = std::collections::BTreeSet::new();
    let spares_ok = scn.threads.iter().flatten().flat_map(|t| t.ops.iter()).all(|o| {
        let nd: Vec<u32> = match o {
            Op::InsertVertex { nd, .. } => vec![nd.0, nd.1],
            Op::InsertVertices { nd, .. } | Op::Fan { nd, .. } | Op::FanConvex { nd, .. } | Op::EarclipCcw { nd, .. } | Op::EarclipCw { nd, .. } => nd.clone(),
            Op::CutOuter { nd, .. } => nd.to_vec(),
            Op::CutInner { nd, .. } => nd.to_vec(),
            _ => vec![],
        };
        nd.iter().all(|&x| x != 0 && (x as usize) < s.n() && !s.unused[x as usize] && s.is_free(x) && seen.insert(x))
    });
    // the insertion and triangulation kernels are not anchor-aware (they link, they do not sew):
    // the cells they create have no anchors, and `collapse_edge` waits for anchors that are
    // not there yet — by design, like for coordinates
    let anchors = crate::attrs::mask_kinds(s.kinds).into_iter().any(crate::attrs::kind_is_anchor);
    let unanchored_cells = scn.threads.iter().flatten().flat_map(|t| t.ops.iter()).any(|o| {
        matches!(o, Op::InsertVertex { .. } | Op::InsertVertices { .. } | Op::Fan { .. } | Op::FanConvex { .. } | Op::EarclipCcw { .. } | Op::EarclipCw { .. } | Op::Sew { .. } | Op::Unsew { .. } | Op::WriteA { .. } | Op::WriteACell { .. })
    });
    embedded && !removes && spares_ok && scn.pre.is_empty() && !(anchors && unanchored_cells)
}

/// A serial order is an interleaving like any other. Looks for one in which every other thread
/// has run to completion and a transaction of the remaining thread then never finishes: nobody
/// is left to write whatever it waits for, so the threads do not all terminate. Returns the
/// order and the position of the stuck transaction.
pub fn stuck_when_run_last(scn: &Arc<Scenario>) -> Option<(Vec<(usize, usize)>, usize)> {
    for last in 0..scn.threads.len() {
        let mut order: Vec<(usize, usize)> = vec![];
        for (t, txs) in scn.threads.iter().enumerate() {
            if t != last {
                order.extend((0..txs.len()).map(|i| (t, i)));
            }
        }
        let first_of_last = order.len();
        order.extend((0..scn.threads[last].len()).map(|i| (last, i)));
        if !matches!(run_serial(scn.clone(), order.clone()), SerialOutcome::Blocks) {
            continue;
        }
        // where? shortest prefix that blocks
        for k in 1..=order.len() {
            if matches!(run_serial(scn.clone(), order[..k].to_vec()), SerialOutcome::Blocks) {
                if k - 1 >= first_of_last {
                    // the kernels take cell *identifiers*: when the transactions before it have
                    // turned an argument into a dart that no longer names its edge (the edge now
                    // has a smaller dart), the call is outside the kernels' contract — it looks
                    // attributes up under a slot that is not an identifier
                    let (t, i) = order[k - 1];
                    let args_ok = match run_serial(scn.clone(), order[..k - 1].to_vec()) {
                        SerialOutcome::Done(_, st) => {
                            let pe = st.partition(1);
                            scn.threads[t][i].ops.iter().all(|o| match o {
                                crate::ops::Op::Swap { e } | crate::ops::Op::CutInner { e, .. } | crate::ops::Op::CutOuter { e, .. } | crate::ops::Op::Collapse { e } | crate::ops::Op::InsertVertex { e, .. } | crate::ops::Op::InsertVertices { e, .. } => {
                                    (*e as usize) < st.n() && pe[*e as usize] == *e
                                }
                                _ => true,
                            })
                        }
                        _ => false,
                    };
                    if args_ok {
                        return Some((order, k - 1));
                    }
                }
                break;
            }
        }
    }
    None
}

#[derive(Clone, Copy, PartialEq, Eq, Debug)]
pub enum Symptom {
    Panics,
    Blocks,
}

/// Is there a one-at-a-time execution that shows the same symptom? A transaction of the
/// concurrent run may legitimately have reported an error instead of committing (it saw a torn
/// snapshot, or it fails in that position anyway), after which the *later* transactions of its
/// thread run without its effects; a panicked or deadlocked execution leaves no record of which
/// transactions committed. So every subset of the abortable transactions is considered omitted
/// (the others in every program-order-compatible order). Some(true) as soon as one such serial
/// execution shows the symptom, Some(false) when none does, None when the budget of serial
/// executions is exhausted (inconclusive).
pub fn serial_explains(scn: &Arc<Scenario>, what: Symptom, budget: usize) -> (Option<bool>, usize, Option<String>) {
    use crate::ops::Runner;
    let abortable: Vec<(usize, usize)> = scn
        .threads
        .iter()
        .enumerate()
        .flat_map(|(t, txs)| txs.iter().enumerate().filter(|(_, tx)| tx.runner != Runner::Atomically).map(move |(i, _)| (t, i)))
        .collect();
    let k = abortable.len().min(12);
    let mut tried = 0usize;
    // subsets in order of increasing number of omitted transactions
    let mut masks: Vec<u32> = (0..(1u32 << k)).collect();
    masks.sort_by_key(|m| m.count_ones());
    for mask in masks {
        let omitted: Vec<(usize, usize)> = (0..k).filter(|b| mask & (1 << b) != 0).map(|b| abortable[b]).collect();
        let per_thread: Vec<Vec<usize>> = scn
            .threads
            .iter()
            .enumerate()
            .map(|(t, txs)| (0..txs.len()).filter(|i| !omitted.contains(&(t, *i))).collect())
            .collect();
        let remaining = budget.saturating_sub(tried);
        if remaining == 0 {
            return (None, tried, None);
        }
        let orders = interleavings(&per_thread, remaining);
        for order in &orders {
            tried += 1;
            match run_serial(scn.clone(), order.clone()) {
                SerialOutcome::Panic(m) if what == Symptom::Panics => return (Some(true), tried, Some(format!("serial order {order:?} (omitting {omitted:?}) panics too: {m}"))),
                SerialOutcome::Blocks if what == Symptom::Blocks => return (Some(true), tried, Some(format!("serial order {order:?} (omitting {omitted:?}) blocks too"))),
                _ => {}
            }
        }
        if count_interleavings(&per_thread) > remaining as f64 {
            return (None, tried, None);
        }
    }
    (Some(false), tried, None)
}

pub fn committed_set(outs: &[Vec<TxOut>]) -> Vec<(usize, usize)> {
    let mut v = vec![];
    for (th, os) in outs.iter().enumerate() {
        for (i, o) in os.iter().enumerate() {
            if matches!(o.value, TxValue::Ok(_)) {
                v.push((th, i));
            }
        }
    }
    v
}
