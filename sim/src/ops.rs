//! Operations a simulated client can issue, their result encoding, and their execution against
//! the real map, inside a caller-provided transaction or in the library's own `force_*` form.

use fast_stm::{
    StmError, Transaction, TransactionClosureResult, TransactionControl, TransactionError,
    TransactionResult, atomically, atomically_with_err,
};
use honeycomb_kernels::cell_insertion::{insert_vertex_on_edge, insert_vertices_on_edge};
use honeycomb_kernels::remeshing::{
    collapse_edge, cut_inner_edge, cut_outer_edge, move_vertex_to_average, swap_edge,
};
use honeycomb_kernels::triangulation::{
    earclip_cell_countercw, earclip_cell_cw, fan_cell, fan_convex_cell,
};
use serde::{Deserialize, Serialize};

use crate::anymap::AnyMap;
use crate::faults;
use crate::state::{Bits3, Policy};

#[derive(Clone, Debug, PartialEq, Eq, Hash, Serialize, Deserialize)]
pub enum Op {
    Link { i: u8, l: u32, r: u32 },
    Unlink { i: u8, l: u32 },
    Sew { i: u8, l: u32, r: u32 },
    Unsew { i: u8, l: u32 },
    ReadV { id: u32 },
    WriteV { id: u32, v: Bits3 },
    RemoveV { id: u32 },
    ReadA { k: u8, id: u32 },
    WriteA { k: u8, id: u32, v: u64 },
    RemoveA { k: u8, id: u32 },
    /// okind: 0 vertex, 1 edge, 2 face, 3 volume
    CellId { okind: u8, d: u32 },
    Orbit { p: Policy, d: u32 },
    Beta { i: u8, d: u32 },
    IsUnused { d: u32 },
    RemoveDartTx { d: u32 },
    /// user block: compute the cell id of dart `d` for the orbit of kind `k`, then write the
    /// attribute under that id (returns the id and the old value)
    WriteACell { k: u8, d: u32, v: u64 },
    /// user block: compute the vertex id of `d`, then write / read the coordinates under it
    WriteVCell { d: u32, v: Bits3 },
    ReadVCell { d: u32 },
    ReadACell { k: u8, d: u32 },
    /// read-only auditor: reads every image and flag (and, with `data`, every coordinate and
    /// attribute of the given kinds) in one transaction; returns a digest of what it saw and
    /// whether it was a well-formed map
    Audit { kinds: u16, data: bool },
    // ---- kernels (2D only)
    /// t: relative position as f64 bits, None = midpoint
    InsertVertex { e: u32, nd: (u32, u32), t: Option<u64> },
    InsertVertices { e: u32, nd: Vec<u32>, ts: Vec<u64> },
    Fan { f: u32, nd: Vec<u32> },
    FanConvex { f: u32, nd: Vec<u32> },
    EarclipCcw { f: u32, nd: Vec<u32> },
    EarclipCw { f: u32, nd: Vec<u32> },
    Swap { e: u32 },
    CutOuter { e: u32, nd: [u32; 3] },
    CutInner { e: u32, nd: [u32; 6] },
    Collapse { e: u32 },
    MoveToAverage { vid: u32, others: Vec<u32> },
}

/// Result of one operation as seen by its caller.
#[derive(Clone, Debug, PartialEq, Eq, Hash, Serialize, Deserialize)]
pub enum Res {
    Unit,
    U(u32),
    Us(Vec<u32>),
    B(bool),
    V(Option<Bits3>),
    A(Option<u64>),
}

fn lift<T, E>(r: Result<T, StmError>) -> TransactionClosureResult<T, E> {
    r.map_err(TransactionError::Stm)
}
fn strerr<T, E: std::fmt::Debug>(r: TransactionClosureResult<T, E>) -> TransactionClosureResult<T, String> {
    r.map_err(|e| match e {
        TransactionError::Abort(e) => TransactionError::Abort(format!("{e:?}")),
        TransactionError::Stm(s) => TransactionError::Stm(s),
    })
}

/// Execute `op` inside the caller's transaction.
pub fn exec_tx(m: &AnyMap, t: &mut Transaction, op: &Op) -> TransactionClosureResult<Res, String> {
    Ok(match op {
        Op::Link { i, l, r } => {
            strerr(m.link_tx(t, *i, *l, *r))?;
            Res::Unit
        }
        Op::Unlink { i, l } => {
            strerr(m.unlink_tx(t, *i, *l))?;
            Res::Unit
        }
        Op::Sew { i, l, r } => {
            strerr(m.sew_tx(t, *i, *l, *r))?;
            Res::Unit
        }
        Op::Unsew { i, l } => {
            strerr(m.unsew_tx(t, *i, *l))?;
            Res::Unit
        }
        Op::ReadV { id } => Res::V(lift(m.read_vertex_tx(t, *id))?),
        Op::WriteV { id, v } => Res::V(lift(m.write_vertex_tx(t, *id, *v))?),
        Op::RemoveV { id } => Res::V(lift(m.remove_vertex_tx(t, *id))?),
        Op::ReadA { k, id } => Res::A(lift(m.read_attr_tx(t, *k as usize, *id))?),
        Op::WriteA { k, id, v } => Res::A(lift(m.write_attr_tx(t, *k as usize, *id, *v))?),
        Op::RemoveA { k, id } => Res::A(lift(m.remove_attr_tx(t, *k as usize, *id))?),
        Op::CellId { okind, d } => Res::U(lift(m.cell_id_tx(t, *okind, *d))?),
        Op::Orbit { p, d } => Res::Us(lift(m.orbit_tx(t, *p, *d))?),
        Op::Beta { i, d } => Res::U(lift(m.beta_tx(t, *i, *d))?),
        Op::IsUnused { d } => match m {
            AnyMap::M2(mm) => Res::B(lift(mm.is_unused_transac(t, *d))?),
            AnyMap::M3(_) => panic!("IsUnused is a 2D operation"),
        },
        Op::RemoveDartTx { d } => Res::B(lift(m.remove_dart_tx(t, *d))?),
        Op::WriteACell { k, d, v } => {
            let id = lift(m.cell_id_tx(t, crate::attrs::kind_orbit(*k as usize), *d))?;
            let old = lift(m.write_attr_tx(t, *k as usize, id, *v))?;
            Res::Us(vec![id, old.map_or(u32::MAX, |o| (o & 0xffff_ffff) as u32), old.map_or(0, |o| (o >> 32) as u32)])
        }
        Op::ReadACell { k, d } => {
            let id = lift(m.cell_id_tx(t, crate::attrs::kind_orbit(*k as usize), *d))?;
            let old = lift(m.read_attr_tx(t, *k as usize, id))?;
            Res::Us(vec![id, old.map_or(u32::MAX, |o| (o & 0xffff_ffff) as u32), old.map_or(0, |o| (o >> 32) as u32)])
        }
        Op::WriteVCell { d, v } => {
            let id = lift(m.cell_id_tx(t, 0, *d))?;
            let old = lift(m.write_vertex_tx(t, id, *v))?;
            let _ = id;
            Res::V(old)
        }
        Op::ReadVCell { d } => {
            let id = lift(m.cell_id_tx(t, 0, *d))?;
            Res::V(lift(m.read_vertex_tx(t, id))?)
        }
        Op::Audit { kinds, data } => {
            let snap = lift(m.snapshot_tx(t, *kinds, *data))?;
            // the digest makes the observed snapshot part of the transaction's return value, so
            // the serial-order oracle decides whether it was a state some serial order passes
            // through; the flag reports torn (ill-formed) views directly
            Res::Us(vec![(snap.hash64() >> 32) as u32, snap.hash64() as u32, u32::from(snap.wf().is_ok())])
        }
        _ => {
            let AnyMap::M2(mm) = m else { panic!("kernels are 2D operations") };
            match op {
                Op::InsertVertex { e, nd, t: pos } => {
                    strerr(insert_vertex_on_edge(mm, t, *e, *nd, pos.map(f64::from_bits)))?;
                    Res::Unit
                }
                Op::InsertVertices { e, nd, ts } => {
                    let ts: Vec<f64> = ts.iter().map(|b| f64::from_bits(*b)).collect();
                    strerr(insert_vertices_on_edge(mm, t, *e, nd, &ts))?;
                    Res::Unit
                }
                Op::Fan { f, nd } => {
                    strerr(fan_cell(t, mm, *f, nd))?;
                    Res::Unit
                }
                Op::FanConvex { f, nd } => {
                    strerr(fan_convex_cell(t, mm, *f, nd))?;
                    Res::Unit
                }
                Op::EarclipCcw { f, nd } => {
                    strerr(earclip_cell_countercw(t, mm, *f, nd))?;
                    Res::Unit
                }
                Op::EarclipCw { f, nd } => {
                    strerr(earclip_cell_cw(t, mm, *f, nd))?;
                    Res::Unit
                }
                Op::Swap { e } => {
                    strerr(swap_edge(t, mm, *e))?;
                    Res::Unit
                }
                Op::CutOuter { e, nd } => {
                    strerr(cut_outer_edge(t, mm, *e, *nd))?;
                    Res::Unit
                }
                Op::CutInner { e, nd } => {
                    strerr(cut_inner_edge(t, mm, *e, *nd))?;
                    Res::Unit
                }
                Op::Collapse { e } => Res::U(strerr(collapse_edge(t, mm, *e))?),
                Op::MoveToAverage { vid, others } => {
                    lift(move_vertex_to_average(t, mm, *vid, others))?;
                    Res::Unit
                }
                _ => unreachable!(),
            }
        }
    })
}

/// Does the library offer a `force_*` (retry-until-committed) form of this operation?
pub fn has_force_form(op: &Op) -> bool {
    matches!(
        op,
        Op::Link { .. }
            | Op::Unlink { .. }
            | Op::Sew { .. }
            | Op::Unsew { .. }
            | Op::ReadV { .. }
            | Op::WriteV { .. }
            | Op::RemoveV { .. }
            | Op::ReadA { .. }
            | Op::WriteA { .. }
            | Op::RemoveA { .. }
            | Op::CellId { .. }
    )
}

/// Execute `op` in the library's own `force_*` form.
pub fn exec_force(m: &AnyMap, op: &Op) -> Result<Res, String> {
    let d = |e: &dyn std::fmt::Debug| format!("{e:?}");
    Ok(match op {
        Op::Link { i, l, r } => {
            m.force_link(*i, *l, *r).map_err(|e| d(&e))?;
            Res::Unit
        }
        Op::Unlink { i, l } => {
            m.force_unlink(*i, *l).map_err(|e| d(&e))?;
            Res::Unit
        }
        Op::Sew { i, l, r } => {
            m.force_sew(*i, *l, *r).map_err(|e| d(&e))?;
            Res::Unit
        }
        Op::Unsew { i, l } => {
            m.force_unsew(*i, *l).map_err(|e| d(&e))?;
            Res::Unit
        }
        Op::ReadV { id } => Res::V(m.read_vertex(*id)),
        Op::WriteV { id, v } => Res::V(m.write_vertex(*id, *v)),
        Op::RemoveV { id } => Res::V(m.remove_vertex(*id)),
        Op::ReadA { k, id } => Res::A(m.read_attr(*k as usize, *id)),
        Op::WriteA { k, id, v } => Res::A(m.write_attr(*k as usize, *id, *v)),
        Op::RemoveA { k, id } => Res::A(m.remove_attr(*k as usize, *id)),
        Op::CellId { okind, d } => Res::U(m.cell_id(*okind, *d)),
        _ => panic!("no force form for {op:?}"),
    })
}

// ------------------------------------------------------------------------------ transactions

#[derive(Clone, Copy, Debug, PartialEq, Eq, Hash, Serialize, Deserialize)]
pub enum Runner {
    /// `atomically_with_err`
    WithErr,
    /// `Transaction::with_control_and_err` with a control function that always retries
    ControlRetry,
    /// `Transaction::with_control_and_err` whose control aborts at the n-th STM error
    ControlAbortAfter(u8),
    /// the library's `force_*` form (single operation)
    Force,
    /// `Transaction::with_control(|_| Retry, ..)` / `atomically`: for infallible operations
    Atomically,
    /// the benches' `while !with_control_and_err(always Retry, ..).is_validated() {}` loop,
    /// bounded to n tries (the original spins forever on a cancelled transaction)
    RetryLoop(u8),
}

#[derive(Clone, Debug, PartialEq, Eq, Hash, Serialize, Deserialize)]
pub struct Tx {
    pub runner: Runner,
    pub ops: Vec<Op>,
    /// F1 plan: 1-based indexes of the attribute callbacks of each attempt that fail
    #[serde(default)]
    pub f1: Vec<u32>,
    /// F2 plan: 0-based indexes of the eligible commit attempts of this transaction that report
    /// a validation failure (the body is then re-executed)
    #[serde(default)]
    pub f2: Vec<u32>,
    /// when non-zero, F1 only fires in this attempt (1-based) of the transaction
    #[serde(default)]
    pub f1_attempt: u32,
}

#[derive(Clone, Debug, PartialEq, Eq, Hash, Serialize, Deserialize)]
pub enum TxValue {
    /// results of all operations of the committing attempt
    Ok(Vec<Res>),
    /// index of the failing operation and its typed error (debug form)
    Err(usize, String),
    /// `with_control_and_err` gave up on an STM error
    Abandoned,
}

#[derive(Clone, Debug, PartialEq, Eq, Serialize, Deserialize)]
pub struct TxOut {
    pub value: TxValue,
    /// global commit stamp; 0 when nothing was committed
    pub stamp: u64,
    pub attempts: u32,
    /// attribute callbacks that returned an error during the last attempt (injected or natural)
    pub rejections: u32,
    /// attribute callbacks run by the last attempt
    #[serde(default)]
    pub callbacks: u32,
}

impl TxOut {
    pub fn committed(&self) -> bool {
        matches!(self.value, TxValue::Ok(_))
    }
}

fn body(m: &AnyMap, t: &mut Transaction, tx: &Tx) -> TransactionClosureResult<Vec<Res>, (usize, String)> {
    faults::begin_attempt();
    let mut out = Vec::with_capacity(tx.ops.len());
    for (i, op) in tx.ops.iter().enumerate() {
        match exec_tx(m, t, op) {
            Ok(r) => out.push(r),
            Err(TransactionError::Abort(e)) => return Err(TransactionError::Abort((i, e))),
            Err(TransactionError::Stm(s)) => return Err(TransactionError::Stm(s)),
        }
    }
    Ok(out)
}

/// Run one transaction of a simulated client with the real runners of fast-stm.
pub fn run_tx(m: &AnyMap, tx: &Tx) -> TxOut {
    fast_stm::verif::clear_last_commit();
    fast_stm::verif::clear_attempts();
    faults::arm(&tx.f1);
    faults::only_in_attempt(tx.f1_attempt);
    faults::clear_rejections();
    if !tx.f2.is_empty() {
        fast_stm::verif::set_forced_failures(tx.f2.clone());
    }
    let value = match tx.runner {
        Runner::WithErr => match atomically_with_err(|t| body(m, t, tx)) {
            Ok(v) => TxValue::Ok(v),
            Err((i, e)) => TxValue::Err(i, e),
        },
        Runner::ControlRetry => {
            match Transaction::with_control_and_err(|_| TransactionControl::Retry, |t| body(m, t, tx)) {
                TransactionResult::Validated(v) => TxValue::Ok(v),
                TransactionResult::Cancelled((i, e)) => TxValue::Err(i, e),
                TransactionResult::Abandoned => TxValue::Abandoned,
            }
        }
        Runner::ControlAbortAfter(n) => {
            let mut seen = 0u8;
            match Transaction::with_control_and_err(
                |_| {
                    seen += 1;
                    if seen >= n { TransactionControl::Abort } else { TransactionControl::Retry }
                },
                |t| body(m, t, tx),
            ) {
                TransactionResult::Validated(v) => TxValue::Ok(v),
                TransactionResult::Cancelled((i, e)) => TxValue::Err(i, e),
                TransactionResult::Abandoned => TxValue::Abandoned,
            }
        }
        Runner::Atomically => {
            let v = Transaction::with_control(
                |_| TransactionControl::Retry,
                |t| match body(m, t, tx) {
                    Ok(v) => Ok(v),
                    Err(TransactionError::Stm(e)) => Err(e),
                    Err(TransactionError::Abort((i, e))) => panic!("operation {i} aborted inside `atomically`: {e}"),
                },
            );
            TxValue::Ok(v.expect("always-retry control cannot abandon"))
        }
        Runner::RetryLoop(n) => {
            let mut last = TxValue::Abandoned;
            for _ in 0..n.max(1) {
                match Transaction::with_control_and_err(|_| TransactionControl::Retry, |t| body(m, t, tx)) {
                    TransactionResult::Validated(v) => {
                        last = TxValue::Ok(v);
                        break;
                    }
                    TransactionResult::Cancelled((i, e)) => last = TxValue::Err(i, e),
                    TransactionResult::Abandoned => last = TxValue::Abandoned,
                }
            }
            last
        }
        Runner::Force => {
            assert_eq!(tx.ops.len(), 1, "force form runs exactly one operation");
            // the library's own transaction: attempts cannot be observed from outside, so the
            // F1 plan counts callbacks over the whole call (exact when there is one attempt)
            faults::begin_attempt();
            match exec_force(m, &tx.ops[0]) {
                Ok(r) => TxValue::Ok(vec![r]),
                Err(e) => TxValue::Err(0, e),
            }
        }
    };
    let rejections = faults::rejections();
    let callbacks = faults::callbacks_in_last_attempt();
    faults::disarm();
    if !tx.f2.is_empty() {
        fast_stm::verif::set_forced_failures(vec![]);
    }
    let stamp = if matches!(value, TxValue::Ok(_)) { fast_stm::verif::last_commit_stamp() } else { 0 };
    TxOut { value, stamp, attempts: fast_stm::verif::attempts_of_this_thread(), rejections, callbacks }
}

/// Plain `atomically` helper for harness-side reads.
pub fn read_only<T>(f: impl Fn(&mut Transaction) -> Result<T, StmError>) -> T {
    atomically(f)
}
