//! hcio — engine of C10: building a 2-map from stored cmap text yields a well-formed map or an
//! error. writer (real `CMap2::serialize`) -> simulated store (fault injection on the stored
//! bytes) -> real loader (`CMapBuilder::from_cmap_file(..).build()`), no scheduler involved: it
//! is built against the real fast-stm with the verification guard off.
//!
//! Per sampled map the fault space is enumerated exhaustively: truncation after every byte (a
//! crash during the write), substitution of every byte by each character of a format-relevant
//! alphabet plus a flipped low bit, deletion / duplication / adjacent swap of every line,
//! deletion / duplication of every token; then seeded multi-fault mixes and random texts with a
//! valid section layout.

#[path = "../../sim/src/prng.rs"]
mod prng;

use std::collections::{BTreeMap, BTreeSet};
use std::panic::{self, AssertUnwindSafe};
use std::path::{Path, PathBuf};
use std::sync::Mutex;
use std::time::Instant;

use honeycomb_core::cmap::{CMap2, CMapBuilder};
use honeycomb_core::geometry::CoordsFloat;
use prng::{Rng, derive};
use serde::{Deserialize, Serialize};
use serde_json::{Value, json};

// ------------------------------------------------------------------------------- model

#[derive(Clone, Debug)]
struct Model {
    beta: Vec<[u32; 3]>,
    unused: Vec<bool>,
    vtx: Vec<Option<(f64, f64)>>,
}

fn random_model(rng: &mut Rng, n: usize) -> Model {
    let mut m = Model { beta: vec![[0; 3]; n + 1], unused: vec![false; n + 1], vtx: vec![None; n + 1] };
    let mut darts: Vec<u32> = (1..=n as u32).collect();
    rng.shuffle(&mut darts);
    let n_removed = if rng.chance(0.5) { rng.below(1 + n / 4) } else { 0 };
    for d in darts.drain(..n_removed) {
        m.unused[d as usize] = true;
    }
    let mut i = 0;
    while i < darts.len() {
        let len = 1 + rng.below(5.min(darts.len() - i));
        let g = &darts[i..i + len];
        let closed = if len == 1 { false } else { rng.chance(0.6) };
        for w in 0..len - 1 {
            m.beta[g[w] as usize][1] = g[w + 1];
            m.beta[g[w + 1] as usize][0] = g[w];
        }
        if closed {
            m.beta[g[len - 1] as usize][1] = g[0];
            m.beta[g[0] as usize][0] = g[len - 1];
        }
        i += len;
    }
    let mut pool = darts.clone();
    rng.shuffle(&mut pool);
    let density = rng.unit();
    while pool.len() >= 2 {
        let (a, b) = (pool.pop().unwrap(), pool.pop().unwrap());
        if rng.chance(density) {
            m.beta[a as usize][2] = b;
            m.beta[b as usize][2] = a;
        }
    }
    let p_def = [0.0, 0.6, 1.0][rng.below(3)];
    for d in 1..=n {
        if !m.unused[d] && rng.chance(p_def) {
            m.vtx[d] = Some(rand_coord(rng));
        }
    }
    m
}

fn rand_coord(rng: &mut Rng) -> (f64, f64) {
    let c = |rng: &mut Rng| match rng.below(12) {
        0 => 0.1 + 0.2,
        1 => 1e300,
        2 => -1e-300,
        3 => f64::INFINITY,
        4 => -0.0,
        5 => 1.0 / 3.0,
        6 => 123456789.125,
        _ => (rng.below(2001) as f64 - 1000.0) / 8.0 + rng.unit() * 1e-3,
    };
    (c(rng), c(rng))
}

fn build_real<T: CoordsFloat>(m: &Model) -> CMap2<T> {
    let n = m.beta.len() - 1;
    let mut map: CMap2<T> = CMapBuilder::<2, T>::from_n_darts(n).build().unwrap();
    for d in 1..=n {
        map.set_betas(d as u32, m.beta[d]);
    }
    for d in 1..=n {
        if m.unused[d] {
            map.remove_free_dart(d as u32);
        }
    }
    for d in 1..=n {
        if let Some((x, y)) = m.vtx[d] {
            // only vertex ids are serialized: write under the dart itself, the serializer decides
            map.force_write_vertex(d as u32, (T::from(x).unwrap(), T::from(y).unwrap()));
        }
    }
    map
}

// ------------------------------------------------------------------------------- independent reader

#[derive(Debug, Clone)]
struct Parsed {
    n: usize,
    rows: [Vec<u64>; 3],
    unused: Vec<u64>,
    vertices: Vec<(u64, f64, f64)>,
}

/// The dimension token of the (single) [META] line, when there is one three-token line under a
/// single [META] header and the token is a number.
fn announced_dimension(text: &str) -> Option<u64> {
    let mut in_meta = false;
    let mut found: Option<u64> = None;
    let mut headers = 0;
    for line in text.lines() {
        let l = line.split('#').next().unwrap().trim();
        if l.is_empty() {
            continue;
        }
        if l.starts_with('[') {
            in_meta = l.trim_matches(|c| c == '[' || c == ']').eq_ignore_ascii_case("meta");
            headers += usize::from(in_meta);
            continue;
        }
        if in_meta {
            let t: Vec<&str> = l.split_whitespace().collect();
            if t.len() != 3 || found.is_some() {
                return None;
            }
            found = Some(t[1].parse().ok()?);
        }
    }
    if headers == 1 { found } else { None }
}

/// Reader of the documented cmap format, written independently of the loader. None = this
/// reader cannot make sense of the text (then only "no panic, well-formed" is asserted).
fn independent_read(text: &str) -> Option<Parsed> {
    let mut section = String::new();
    let mut content: BTreeMap<String, Vec<String>> = BTreeMap::new();
    for line in text.lines() {
        let l = line.split('#').next().unwrap().trim();
        if line.trim().starts_with('#') || l.is_empty() {
            continue;
        }
        if l.starts_with('[') {
            let name = l.trim_matches(|c| c == '[' || c == ']').to_lowercase();
            if content.contains_key(&name) {
                return None;
            }
            content.insert(name.clone(), vec![]);
            section = name;
            continue;
        }
        if section.is_empty() {
            continue;
        }
        content.get_mut(&section)?.push(l.to_string());
    }
    let meta = content.get("meta")?;
    if meta.len() != 1 {
        return None;
    }
    let mp: Vec<&str> = meta[0].split_whitespace().collect();
    if mp.len() != 3 || mp[1] != "2" {
        return None;
    }
    let n: usize = mp[2].parse().ok()?;
    let betas = content.get("betas")?;
    if betas.len() != 3 {
        return None;
    }
    let mut rows: [Vec<u64>; 3] = [vec![], vec![], vec![]];
    for i in 0..3 {
        for tok in betas[i].split_whitespace() {
            rows[i].push(tok.parse().ok()?);
        }
    }
    let mut unused = vec![];
    if let Some(u) = content.get("unused") {
        for l in u {
            for tok in l.split_whitespace() {
                unused.push(tok.parse().ok()?);
            }
        }
    }
    let mut vertices = vec![];
    if let Some(v) = content.get("vertices") {
        for l in v {
            let p: Vec<&str> = l.split_whitespace().collect();
            if p.len() != 3 {
                return None;
            }
            vertices.push((p[0].parse().ok()?, p[1].parse().ok()?, p[2].parse().ok()?));
        }
    }
    Some(Parsed { n, rows, unused, vertices })
}

// ------------------------------------------------------------------------------- oracle

#[derive(Debug, Clone, PartialEq)]
enum Outcome {
    LayoutRejected,
    BuilderError(String),
    OkWellFormedAgrees,
    OkUnclaimed,
    Violation(&'static str, String),
}

fn wf_real<T: CoordsFloat>(map: &CMap2<T>) -> Result<(), String> {
    let n = map.n_darts() as u32;
    for i in 0..3u8 {
        if map.beta_rt(i, 0) != 0 {
            return Err(format!("beta{i}(0) = {}", map.beta_rt(i, 0)));
        }
    }
    for d in 1..n {
        for i in 0..3u8 {
            if map.beta_rt(i, d) >= n {
                return Err(format!("beta{i}({d}) = {} >= n_darts {n}", map.beta_rt(i, d)));
            }
        }
        let e = map.beta::<1>(d);
        if e != 0 && map.beta::<0>(e) != d {
            return Err(format!("beta1({d}) = {e} but beta0({e}) = {}", map.beta::<0>(e)));
        }
        let e = map.beta::<0>(d);
        if e != 0 && map.beta::<1>(e) != d {
            return Err(format!("beta0({d}) = {e} but beta1({e}) = {}", map.beta::<1>(e)));
        }
        let e = map.beta::<2>(d);
        if e != 0 && (e == d || map.beta::<2>(e) != d) {
            return Err(format!("beta2({d}) = {e} is not an involution without fixed point"));
        }
        if map.is_unused(d) {
            if !map.is_free(d) {
                return Err(format!("removed dart {d} is linked"));
            }
        }
        for i in 0..3u8 {
            let e = map.beta_rt(i, d);
            if e != 0 && e < n && map.is_unused(e) {
                return Err(format!("removed dart {e} is the beta{i} image of {d}"));
            }
        }
    }
    Ok(())
}

fn judge_map<T: CoordsFloat>(map: &CMap2<T>, text: &str) -> Outcome {
    // well-formedness first: images must be in range before anything else is dereferenced
    let n = map.n_darts() as u32;
    for d in 0..n {
        for i in 0..3u8 {
            if map.beta_rt(i, d) >= n {
                return Outcome::Violation("ill-formed-map-returned", format!("beta{i}({d}) = {} >= n_darts {n}", map.beta_rt(i, d)));
            }
        }
    }
    if let Err(e) = wf_real(map) {
        return Outcome::Violation("ill-formed-map-returned", e);
    }
    // a header that announces another dimension does not describe a 2-map at all
    if let Some(dim) = announced_dimension(text) {
        if dim != 2 {
            return Outcome::Violation("map-disagrees-with-text", format!("the [META] line announces dimension {dim}, yet a 2-map was built"));
        }
    }
    let Some(p) = independent_read(text) else { return Outcome::OkUnclaimed };
    for i in 0..3 {
        if p.rows[i].len() != p.n + 1 {
            return Outcome::Violation("map-disagrees-with-text", format!("the beta{i} row of the text has {} values for {} darts (null dart included), yet a map was built", p.rows[i].len(), p.n + 1));
        }
    }
    if map.n_darts() != p.n + 1 {
        return Outcome::Violation("map-disagrees-with-text", format!("n_darts() = {} for a text announcing {} darts", map.n_darts(), p.n));
    }
    for i in 0..3u8 {
        for d in 0..=p.n {
            if u64::from(map.beta_rt(i, d as u32)) != p.rows[i as usize][d] {
                return Outcome::Violation("map-disagrees-with-text", format!("beta{i}({d}) = {} but the text says {}", map.beta_rt(i, d as u32), p.rows[i as usize][d]));
            }
        }
    }
    let us: BTreeSet<u64> = p.unused.iter().copied().collect();
    for d in 1..=p.n {
        if map.is_unused(d as u32) != us.contains(&(d as u64)) {
            return Outcome::Violation("map-disagrees-with-text", format!("dart {d}: removed = {} but the text's [UNUSED] list says {}", map.is_unused(d as u32), us.contains(&(d as u64))));
        }
    }
    if us.iter().any(|&u| u == 0 || u > p.n as u64) {
        return Outcome::Violation("map-disagrees-with-text", format!("the text removes a dart that does not exist: {:?}", us));
    }
    let mut want: BTreeMap<u64, (f64, f64)> = BTreeMap::new();
    for &(id, x, y) in &p.vertices {
        if id > p.n as u64 {
            return Outcome::Violation("map-disagrees-with-text", format!("the text has a vertex for dart {id}, which does not exist"));
        }
        want.insert(id, (x, y));
    }
    for d in 1..=p.n {
        let got = map.force_read_vertex(d as u32).map(|v| (v.0, v.1));
        let w = want.get(&(d as u64)).map(|&(x, y)| (T::from(x).unwrap(), T::from(y).unwrap()));
        let same = match (got, w) {
            (None, None) => true,
            (Some(a), Some(b)) => a.0.to_f64().unwrap().to_bits() == b.0.to_f64().unwrap().to_bits() && a.1.to_f64().unwrap().to_bits() == b.1.to_f64().unwrap().to_bits(),
            _ => false,
        };
        if !same {
            return Outcome::Violation("map-disagrees-with-text", format!("vertex {d}: map has {got:?}, text says {w:?}"));
        }
    }
    Outcome::OkWellFormedAgrees
}

/// store -> loader -> build -> judge, for one stored text.
fn load_and_judge<T: CoordsFloat>(text: &str, scratch: &Path) -> Outcome {
    if std::fs::write(scratch, text).is_err() {
        eprintln!("HARNESS-ERROR cannot write scratch file {}", scratch.display());
        std::process::exit(2);
    }
    let b = panic::catch_unwind(AssertUnwindSafe(|| CMapBuilder::<2, T>::from_cmap_file(scratch)));
    let Ok(builder) = b else { return Outcome::LayoutRejected };
    match panic::catch_unwind(AssertUnwindSafe(|| builder.build())) {
        Err(p) => {
            let msg = p.downcast_ref::<String>().cloned().or_else(|| p.downcast_ref::<&str>().map(|s| s.to_string())).unwrap_or_default();
            Outcome::Violation("build-panicked", format!("build() panicked: {}", last_panic().unwrap_or(msg)))
        }
        Ok(Err(e)) => Outcome::BuilderError(format!("{e:?}")),
        Ok(Ok(map)) => match panic::catch_unwind(AssertUnwindSafe(|| judge_map(&map, text))) {
            Ok(o) => o,
            Err(_) => Outcome::Violation("ill-formed-map-returned", format!("inspecting the returned map panics: {}", last_panic().unwrap_or_default())),
        },
    }
}

thread_local! {
    static LAST_PANIC: std::cell::RefCell<Option<String>> = const { std::cell::RefCell::new(None) };
}
fn last_panic() -> Option<String> {
    LAST_PANIC.with(|p| p.borrow_mut().take())
}

// ------------------------------------------------------------------------------- fault space

const ALPHABET: &[u8] = b"09 \n-.#[x";

/// Every single-fault corruption of `text` (as bytes; invalid UTF-8 results are skipped since
/// the loader reads the file to a String and panics on them, which is a layout rejection).
fn single_faults(text: &str, mut f: impl FnMut(&'static str, String)) {
    let bytes = text.as_bytes();
    for cut in 0..bytes.len() {
        if let Ok(s) = std::str::from_utf8(&bytes[..cut]) {
            f("truncate", s.to_string());
        }
    }
    for i in 0..bytes.len() {
        for &c in ALPHABET.iter().chain([bytes[i] ^ 1].iter()) {
            if c == bytes[i] {
                continue;
            }
            let mut b = bytes.to_vec();
            b[i] = c;
            if let Ok(s) = String::from_utf8(b) {
                f("substitute", s);
            }
        }
    }
    let lines: Vec<&str> = text.split_inclusive('\n').collect();
    for i in 0..lines.len() {
        let mut l = lines.clone();
        l.remove(i);
        f("line-drop", l.concat());
        let mut l = lines.clone();
        l.insert(i, lines[i]);
        f("line-dup", l.concat());
        if i + 1 < lines.len() {
            let mut l = lines.clone();
            l.swap(i, i + 1);
            f("line-swap", l.concat());
        }
    }
    // tokens
    let mut spans = vec![];
    let mut start = None;
    for (i, c) in text.char_indices() {
        if c.is_whitespace() {
            if let Some(s) = start.take() {
                spans.push((s, i));
            }
        } else if start.is_none() {
            start = Some(i);
        }
    }
    if let Some(s) = start {
        spans.push((s, text.len()));
    }
    for &(a, b) in &spans {
        f("token-drop", format!("{}{}", &text[..a], &text[b..]));
        f("token-dup", format!("{}{} {}", &text[..b], "", &text[a..]));
    }
}

fn multi_fault(rng: &mut Rng, text: &str) -> String {
    let mut t = text.to_string();
    for _ in 0..2 + rng.below(2) {
        let mut all = vec![];
        single_faults(&t, |_, s| all.push(s));
        if all.is_empty() {
            break;
        }
        t = all.swap_remove(rng.below(all.len()));
        if t.len() > 20_000 {
            break;
        }
    }
    t
}

/// Random text with a valid section layout over the token alphabet of the format.
fn random_text(rng: &mut Rng) -> String {
    let n = rng.below(9);
    let tok = |rng: &mut Rng| -> String {
        match rng.below(12) {
            0 => "-1".into(),
            1 => "x".into(),
            2 => "1.5".into(),
            3 => format!("{}", rng.below(40)),
            _ => format!("{}", rng.below(n + 2)),
        }
    };
    let mut s = String::from("[META]\n");
    s += &format!("0.8.1 2 {}\n\n[BETAS]\n", if rng.chance(0.9) { n } else { rng.below(12) });
    for _ in 0..if rng.chance(0.9) { 3 } else { 2 + rng.below(3) } {
        let len = if rng.chance(0.85) { n + 1 } else { rng.below(n + 3) };
        let row: Vec<String> = (0..len).map(|k| if k == 0 && rng.chance(0.9) { "0".into() } else { tok(rng) }).collect();
        s += &row.join(" ");
        s += "\n";
    }
    if rng.chance(0.8) {
        s += "\n[UNUSED]\n";
        let row: Vec<String> = (0..rng.below(3)).map(|_| tok(rng)).collect();
        s += &row.join(" ");
        s += "\n";
    }
    if rng.chance(0.8) {
        s += "\n[VERTICES]\n";
        for _ in 0..rng.below(4) {
            let k = if rng.chance(0.9) { 3 } else { 2 + rng.below(3) };
            let row: Vec<String> = (0..k).map(|_| tok(rng)).collect();
            s += &row.join(" ");
            s += "\n";
        }
    }
    s
}

// ------------------------------------------------------------------------------- check

#[derive(Clone, Debug, Serialize, Deserialize)]
struct Violation {
    property: String,
    class: String,
    message: String,
    seed: u64,
    run: u64,
    payload: Value,
    #[serde(default)]
    known: Option<String>,
}

#[derive(Clone, Debug, Deserialize)]
struct KnownFinding {
    property: String,
    id: String,
    status: String,
    #[serde(default)]
    commit: Option<String>,
    what: String,
    classifier: String,
    #[serde(default)]
    replay: Option<String>,
}

fn verif_root() -> PathBuf {
    std::env::var("VERIF_ROOT").map(PathBuf::from).unwrap_or_else(|_| PathBuf::from("/verif"))
}
fn base_seed() -> u64 {
    std::env::var("VERIF_SEED").ok().and_then(|s| s.parse().ok()).unwrap_or(1)
}
fn n_workers() -> usize {
    std::env::var("VERIF_WORKERS").ok().and_then(|s| s.parse().ok()).unwrap_or_else(|| std::thread::available_parallelism().map(|n| n.get()).unwrap_or(4).min(16))
}
fn scale() -> f64 {
    std::env::var("VERIF_SCALE").ok().and_then(|s| s.parse().ok()).unwrap_or(1.0)
}

fn load_known() -> Vec<KnownFinding> {
    let p = verif_root().join("known_findings.json");
    match std::fs::read_to_string(&p) {
        Ok(s) => serde_json::from_str::<Value>(&s).ok().and_then(|v| serde_json::from_value(v["findings"].clone()).ok()).unwrap_or_default(),
        Err(_) => vec![],
    }
}

#[derive(Default)]
struct Stats {
    c: BTreeMap<String, u64>,
    distinct: BTreeSet<u64>,
    samples: Vec<Value>,
    viols: Vec<Violation>,
}
impl Stats {
    fn inc(&mut self, k: &str) {
        *self.c.entry(k.to_string()).or_insert(0) += 1;
    }
}

fn hash_str(s: &str) -> u64 {
    let mut h = 0xcbf29ce484222325u64;
    for b in s.bytes() {
        h = (h ^ u64::from(b)).wrapping_mul(0x100000001b3);
    }
    h
}

fn eval(text: &str, f32_: bool, scratch: &Path) -> Outcome {
    if f32_ { load_and_judge::<f32>(text, scratch) } else { load_and_judge::<f64>(text, scratch) }
}

fn run_map(i: u64, seed: u64, st: &mut Stats, scratch: &Path, known: &BTreeSet<String>) {
    let mut rng = Rng::new(seed);
    let f32_ = rng.chance(0.3);
    let n = match rng.below(10) {
        0 => 1 + rng.below(3),
        1 => 95 + rng.below(25),
        2 => 8 + rng.below(4),
        _ => 2 + rng.below(16),
    };
    let model = random_model(&mut rng, n);
    let text = {
        let mut s = String::new();
        if f32_ { build_real::<f32>(&model).serialize(&mut s) } else { build_real::<f64>(&model).serialize(&mut s) };
        s
    };
    st.inc("maps");
    // fault-free leg: sanity baseline
    match eval(&text, f32_, scratch) {
        Outcome::OkWellFormedAgrees => st.inc("baseline_ok"),
        o => {
            eprintln!("HARNESS-ERROR fault-free leg failed for seed {seed}: {o:?}\n{text}");
            std::process::exit(2);
        }
    }
    if st.samples.len() < 2 {
        st.samples.push(json!({"seed": seed, "float": if f32_ { "f32" } else { "f64" }, "stored_text": text}));
    }
    let big = n > 40;
    let mut texts: Vec<(&'static str, String)> = vec![];
    if big {
        // large maps: a seeded sample of the single-fault space (it has ~10^4 elements)
        let mut all = vec![];
        single_faults(&text, |k, s| all.push((k, s)));
        for _ in 0..600 {
            let j = rng.below(all.len());
            texts.push(all[j].clone());
        }
    } else {
        single_faults(&text, |k, s| texts.push((k, s)));
        st.inc("maps_enumerated_exhaustively");
    }
    for _ in 0..40 {
        texts.push(("multi", multi_fault(&mut rng, &text)));
    }
    for _ in 0..40 {
        texts.push(("random-text", random_text(&mut rng)));
    }
    for (kind, t) in texts {
        st.inc("loads");
        st.inc(&format!("fault_{kind}"));
        let o = eval(&t, f32_, scratch);
        match &o {
            Outcome::LayoutRejected => st.inc("outcome_layout_rejected_by_loader"),
            Outcome::BuilderError(_) => {
                st.inc("outcome_builder_error");
                st.distinct.insert(hash_str(&t));
            }
            Outcome::OkWellFormedAgrees => {
                st.inc("outcome_ok_well_formed_agrees");
                st.distinct.insert(hash_str(&t));
            }
            Outcome::OkUnclaimed => st.inc("outcome_ok_unclaimed_by_independent_reader"),
            Outcome::Violation(class, msg) => {
                st.inc(&format!("candidate_{class}"));
                if known.contains(*class) {
                    st.inc(&format!("known_hit_{class}"));
                } else if st.viols.iter().filter(|v| v.class == *class).count() < 3 {
                    st.viols.push(Violation { property: "C10".into(), class: class.to_string(), message: format!("fault {kind}: {msg}"), seed, run: i, payload: json!({"text": t, "float": if f32_ { "f32" } else { "f64" }, "fault": kind}), known: None });
                }
            }
        }
    }
}

fn minimise(v: &Violation, scratch: &Path) -> Violation {
    // line-wise then token-wise reduction while the same class persists
    let f32_ = v.payload["float"] == "f32";
    let mut text = v.payload["text"].as_str().unwrap_or("").to_string();
    let same = |t: &str| matches!(eval(t, f32_, scratch), Outcome::Violation(c, _) if c == v.class);
    let mut changed = true;
    while changed {
        changed = false;
        let lines: Vec<&str> = text.split_inclusive('\n').collect();
        for i in 0..lines.len() {
            let mut l = lines.clone();
            l.remove(i);
            let t = l.concat();
            if same(&t) {
                text = t;
                changed = true;
                break;
            }
        }
    }
    let mut out = v.clone();
    if let Outcome::Violation(_, m) = eval(&text, f32_, scratch) {
        out.message = m;
    }
    out.payload["text"] = json!(text);
    out
}

fn replay_file(path: &str) -> i32 {
    let Ok(s) = std::fs::read_to_string(path) else {
        eprintln!("HARNESS-ERROR cannot read {path}");
        return 2;
    };
    let Ok(v) = serde_json::from_str::<Violation>(&s) else {
        eprintln!("HARNESS-ERROR cannot parse {path}");
        return 2;
    };
    let scratch = scratch_dir().join(format!("replay-{}.cmap", std::process::id()));
    let o = eval(v.payload["text"].as_str().unwrap_or(""), v.payload["float"] == "f32", &scratch);
    let _ = std::fs::remove_file(&scratch);
    match o {
        Outcome::Violation(c, m) if c == v.class => {
            println!("REPRODUCED property=C10 class={c}: {m}");
            1
        }
        o => {
            println!("not reproduced: {o:?}");
            0
        }
    }
}

fn scratch_dir() -> PathBuf {
    let d = verif_root().join("target-io").join("scratch");
    let _ = std::fs::create_dir_all(&d);
    d
}

fn check(tier: &str) -> i32 {
    let n_maps = ((match tier {
        "quick" => 160.0,
        _ => 8_000.0,
    }) * scale())
    .max(1.0) as u64;
    let known_all = load_known();
    let known: BTreeSet<String> = known_all.iter().filter(|k| k.property == "C10" && k.status == "known").map(|k| k.classifier.clone()).collect();
    let w = n_workers();
    let base = base_seed();
    let start = Instant::now();
    let total = Mutex::new(Stats::default());
    std::thread::scope(|sc| {
        for wi in 0..w {
            let total = &total;
            let known = &known;
            sc.spawn(move || {
                let scratch = scratch_dir().join(format!("w{wi}-{}.cmap", std::process::id()));
                let mut st = Stats::default();
                let mut i = wi as u64;
                while i < n_maps {
                    run_map(i, derive(base, "C10", i), &mut st, &scratch, known);
                    i += w as u64;
                }
                let _ = std::fs::remove_file(&scratch);
                let mut g = total.lock().unwrap();
                for (k, v) in st.c {
                    *g.c.entry(k).or_insert(0) += v;
                }
                g.distinct.extend(st.distinct);
                for s in st.samples {
                    if g.samples.len() < 3 {
                        g.samples.push(s);
                    }
                }
                g.viols.extend(st.viols);
            });
        }
    });
    let mut st = total.into_inner().unwrap();
    let wall = start.elapsed().as_secs_f64();
    st.viols.sort_by_key(|v| v.run);
    let scratch = scratch_dir().join(format!("main-{}.cmap", std::process::id()));
    // stored replays of listed findings
    let mut exit = 0;
    let mut to_report: Vec<Violation> = vec![];
    for k in known_all.iter().filter(|k| k.property == "C10") {
        let Some(rel) = &k.replay else { continue };
        let Ok(s) = std::fs::read_to_string(verif_root().join(rel)) else {
            eprintln!("HARNESS-ERROR stored replay {rel} missing");
            return 2;
        };
        let Ok(v) = serde_json::from_str::<Violation>(&s) else {
            eprintln!("HARNESS-ERROR stored replay {rel} does not parse");
            return 2;
        };
        let rep = matches!(eval(v.payload["text"].as_str().unwrap_or(""), v.payload["float"] == "f32", &scratch), Outcome::Violation(c, _) if c == v.class);
        match (k.status.as_str(), rep) {
            ("known", true) => println!("KNOWN-FINDING: property=C10 {} [stored replay still fails; {} occurrence(s) in this run; id {}]", k.what, st.c.get(&format!("known_hit_{}", k.classifier)).copied().unwrap_or(0), k.id),
            ("known", false) => println!("note: known finding {} no longer reproduces from its stored replay", k.id),
            ("fixed", true) => {
                let mut v2 = v.clone();
                v2.message = format!("regression of fixed finding {} ({}): {}", k.id, k.commit.clone().unwrap_or_default(), v.message);
                to_report.push(v2);
            }
            _ => {}
        }
    }
    let mut seen = BTreeSet::new();
    for v in &st.viols {
        if seen.insert(v.class.clone()) {
            to_report.push(minimise(v, &scratch));
        }
    }
    let _ = std::fs::remove_file(&scratch);
    let mut n_viol = 0;
    let mut printed = BTreeSet::new();
    for v in &to_report {
        if !printed.insert(v.class.clone()) {
            continue;
        }
        let dir = verif_root().join("replays");
        let _ = std::fs::create_dir_all(&dir);
        let path = dir.join(format!("C10-{}-{}.json", v.class, v.seed));
        std::fs::write(&path, serde_json::to_string_pretty(v).unwrap() + "\n").unwrap();
        // fresh-process confirmation
        let out = std::process::Command::new(std::env::current_exe().unwrap()).arg("replay").arg(&path).output();
        let ok = out.as_ref().map(|o| o.status.code() == Some(1) && String::from_utf8_lossy(&o.stdout).contains(&format!("class={}", v.class))).unwrap_or(false);
        if !ok {
            eprintln!("HARNESS-ERROR property=C10 candidate violation did not replay in a fresh process: {}", path.display());
            return 2;
        }
        println!("VIOLATION property=C10 replay={}", path.display());
        println!("  class={} seed={} run={}: {}", v.class, v.seed, v.run, v.message);
        n_viol += 1;
        exit = 1;
    }
    // evidence
    let loads = st.c.get("loads").copied().unwrap_or(0);
    let mut counters = serde_json::Map::new();
    for (k, v) in &st.c {
        counters.insert(k.clone(), json!(v));
    }
    let ev = json!({
        "property_id": "C10",
        "tier": if tier == "quick" { "quick" } else { "thorough" },
        "seed": base,
        "level": "fault_enumeration",
        "coverage": {
            "evaluations": loads.max(1),
            "distinct_nontrivial": st.distinct.len(),
            "rule": "one evaluation = one stored text handed to the real loader and build(): per sampled well-formed 2-map (1-120 darts, open/closed cells, isolated and removed darts, defined/undefined vertices, f32/f64, special float values) the real serializer's output is corrupted by every single fault of the enumerated space (truncation after every byte; every byte replaced by each of '0','9',' ','\\n','-','.','#','[','x' and by itself with the low bit flipped; every line dropped, duplicated, swapped with the next; every token dropped, duplicated) — exhaustively for maps up to 40 darts, a seeded sample of 600 for larger ones — plus 40 seeded multi-fault mixes and 40 random texts with a valid section layout; distinct_nontrivial = distinct corrupted texts that passed the loader's layout stage and were decided by the oracle (builder error, or well-formed map agreeing with the text)",
            "samples": if st.samples.is_empty() { vec![json!("none")] } else { st.samples.clone() },
            "counters": Value::Object(counters),
            "runs_per_hour": if wall > 0.0 { (loads as f64 / wall * 3600.0) as u64 } else { 0 },
            "workers": w,
            "faults": {"kinds_injected": ["truncate", "substitute", "line-drop", "line-dup", "line-swap", "token-drop", "token-dup", "multi", "random-text"]},
            "components": {"real": ["CMap2::serialize", "CMapBuilder::from_cmap_file", "CMapBuilder::build (build_2d_from_cmap_file)", "fast-stm 0.5.0 (unpatched)"], "simulated": ["the stored file between writer and loader (scratch file under /verif/target-io/scratch)"], "independent": ["40-line reader of the documented format used as agreement oracle"]},
        },
        "assumptions": ["maps are sampled, the single-fault space is enumerated per map", "a loader panic (from_cmap_file) means the section layout was rejected: outside the statement's premise, counted and skipped", "texts the independent reader cannot parse are only checked for no-panic and well-formedness"],
        "wall_s": (wall * 1000.0).round() / 1000.0,
        "violations": n_viol,
    });
    let dir = verif_root().join("evidence");
    let _ = std::fs::create_dir_all(&dir);
    std::fs::write(dir.join("C10.json"), serde_json::to_string_pretty(&ev).unwrap() + "\n").unwrap();
    println!("{} C10 {tier}: {loads} evaluations, {} distinct non-trivial, {n_viol} violation(s), {wall:.1}s", if exit == 0 { "OK" } else { "FAIL" }, st.distinct.len());
    exit
}

fn main() {
    let args: Vec<String> = std::env::args().collect();
    panic::set_hook(Box::new(|info| {
        let msg = info.to_string();
        LAST_PANIC.with(|p| *p.borrow_mut() = Some(msg));
    }));
    let code = match args.get(1).map(String::as_str) {
        Some("check") => {
            println!("property=C10 tier={} VERIF_SEED={} workers={}", args.get(3).map(String::as_str).unwrap_or("quick"), base_seed(), n_workers());
            check(args.get(3).map(String::as_str).unwrap_or("quick"))
        }
        Some("replay") => replay_file(args.get(2).map(String::as_str).unwrap_or("")),
        _ => {
            eprintln!("usage: hcio check C10 <quick|thorough> | hcio replay <file>");
            2
        }
    };
    std::process::exit(code);
}
